(* Proofs about Dmarc/Model.v (C07). *)
From Maddy Require Import Lib.Base Dmarc.Model.
Local Open Scope N_scope.

Section PSL.
  Variable org : str -> option str.
  Variable psuffix : str -> str.
  Notation is_aligned := (is_aligned org psuffix).
  Notation ev_step := (ev_step org psuffix).
  Notation evaluate_alignment := (evaluate_alignment org psuffix).

  (* the specification, written independently of the fold *)
  Definition spf_id (f h : str) : str := match f with [] => h | _ => f end.
  Definition dkim_aligned_pass (from : str) (r : record) (a : ar) : bool :=
    match a with ADkim v d => is_aligned from d (r_adkim r) && res_eqb v Pass | _ => false end.
  Definition dkim_aligned_temp (from : str) (r : record) (a : ar) : bool :=
    match a with ADkim v d => is_aligned from d (r_adkim r) && res_eqb v TempError | _ => false end.
  Definition spf_aligned_pass (from : str) (r : record) (a : ar) : bool :=
    match a with ASpf v f h => is_aligned from (spf_id f h) (r_aspf r) && res_eqb v Pass | _ => false end.
  Definition is_dkim (a : ar) : bool := match a with ADkim _ _ => true | _ => false end.
  Definition is_spf (a : ar) : bool := match a with ASpf _ _ _ => true | _ => false end.
  Fixpoint last_spf (rs : list ar) (acc : option res) : option res :=
    match rs with
    | [] => acc
    | ASpf v _ _ :: t => last_spf t (Some v)
    | _ :: t => last_spf t acc
    end.

  Lemma fold_ev from r rs s :
    let s' := fold_left (ev_step from r) rs s in
    spf_al s' = spf_al s || existsb (spf_aligned_pass from r) rs /\
    dkim_al s' = dkim_al s || existsb (dkim_aligned_pass from r) rs /\
    dkim_temp s' = dkim_temp s || existsb (dkim_aligned_temp from r) rs /\
    dkim_present s' = dkim_present s || existsb is_dkim rs /\
    spf_val s' = last_spf rs (spf_val s).
  Proof.
    revert s. induction rs as [|a rs IH]; intros s; simpl.
    - rewrite !orb_false_r. auto.
    - destruct (IH (ev_step from r s a)) as (H1 & H2 & H3 & H4 & H5).
      cbv zeta in *. rewrite H1, H2, H3, H4, H5.
      destruct a as [v d|v f h|]; simpl; rewrite ?orb_false_r, ?orb_true_r, ?orb_assoc; auto 6.
  Qed.

  Lemma single_spf from r rs acc :
    (length (filter is_spf rs) <= 1)%nat -> existsb (spf_aligned_pass from r) rs = true ->
    last_spf rs acc = Some Pass.
  Proof.
    revert acc. induction rs as [|a rs IH]; intros acc Hl He; simpl in *; [discriminate|].
    destruct a as [v d|v f h|]; simpl in *; auto.
    assert (Hn : filter is_spf rs = []) by (destruct (filter is_spf rs); [reflexivity|simpl in Hl; lia]).
    assert (Hx : existsb (spf_aligned_pass from r) rs = false).
    { clear -Hn. induction rs as [|b rs IH]; simpl in *; auto.
      destruct b; simpl in *; auto; discriminate. }
    rewrite Hx, orb_false_r in He. apply andb_true_iff in He as [_ Hv].
    destruct v; try discriminate.
    clear -Hn. revert Hn. generalize (Some Pass). induction rs as [|b rs IH]; simpl; auto.
    destruct b; simpl; auto; discriminate.
  Qed.

  (* verdict = pass exactly when an aligned passing DKIM signature or the aligned passing SPF
     identity exists - for result lists of any length with DKIM and SPF both evaluated *)
  Lemma pass_iff_aligned from r rs :
    existsb is_dkim rs = true -> existsb is_spf rs = true ->
    (length (filter is_spf rs) <= 1)%nat ->
    (evaluate_alignment from r rs = Pass <->
     existsb (dkim_aligned_pass from r) rs || existsb (spf_aligned_pass from r) rs = true).
  Proof.
    intros Hd Hs Hl. unfold Model.evaluate_alignment, verdict_of.
    destruct (fold_ev from r rs ev0) as (H1 & H2 & H3 & H4 & H5). cbv zeta in *.
    rewrite H1, H2, H3, H4, H5. simpl. rewrite Hd.
    assert (Hsome : exists v, last_spf rs None = Some v).
    { clear -Hs. generalize (@None res). induction rs as [|a rs IH]; simpl in *; [discriminate|].
      intros acc. destruct a; simpl in *; auto.
      clear. revert v. induction rs as [|b rs IH]; simpl; eauto. destruct b; eauto. }
    destruct Hsome as [sv Hsv]. rewrite Hsv.
    destruct (existsb (dkim_aligned_pass from r) rs) eqn:Ed; simpl.
    - rewrite andb_false_r. simpl. tauto.
    - destruct (existsb (spf_aligned_pass from r) rs) eqn:Es; simpl.
      + rewrite andb_false_r. simpl.
        rewrite (single_spf from r rs None Hl Es) in Hsv. inversion Hsv; subst. simpl. tauto.
      + rewrite andb_true_r.
        destruct (existsb (dkim_aligned_temp from r) rs); simpl; [split; discriminate|].
        destruct (res_eqb sv TempError); split; discriminate.
  Qed.

  (* without DKIM or without SPF nothing is decided *)
  Lemma none_when_not_evaluated from r rs :
    existsb is_dkim rs = false \/ existsb is_spf rs = false ->
    evaluate_alignment from r rs = RNone.
  Proof.
    intros H. unfold Model.evaluate_alignment, verdict_of.
    destruct (fold_ev from r rs ev0) as (_ & _ & _ & H4 & H5). cbv zeta in *.
    rewrite H4, H5. simpl. destruct H as [H|H].
    - rewrite H. reflexivity.
    - assert (last_spf rs None = None).
      { clear -H. induction rs as [|a rs IH]; simpl in *; auto. destruct a; simpl in *; auto; discriminate. }
      rewrite H0. destruct (existsb is_dkim rs); reflexivity.
  Qed.

  (* verdict = temperror exactly when alignment is left undecided by a temporary error: no
     aligned DKIM pass, and an aligned DKIM temperror without aligned SPF pass, or SPF temperror *)
  Definition undecided (from : str) (r : record) (rs : list ar) : bool :=
    negb (existsb (dkim_aligned_pass from r) rs) &&
    ((existsb (dkim_aligned_temp from r) rs && negb (existsb (spf_aligned_pass from r) rs))
     || option_eqb res_eqb (last_spf rs None) (Some TempError)).

  Lemma temperror_iff_undecided from r rs :
    existsb is_dkim rs = true -> existsb is_spf rs = true ->
    (evaluate_alignment from r rs = TempError <-> undecided from r rs = true).
  Proof.
    intros Hd Hs. unfold Model.evaluate_alignment, verdict_of, undecided.
    destruct (fold_ev from r rs ev0) as (H1 & H2 & H3 & H4 & H5). cbv zeta in *.
    rewrite H1, H2, H3, H4, H5. simpl. rewrite Hd.
    assert (Hsome : exists v, last_spf rs None = Some v).
    { clear -Hs. generalize (@None res). induction rs as [|a rs IH]; simpl in *; [discriminate|].
      intros acc. destruct a; simpl in *; auto.
      clear. revert v. induction rs as [|b rs IH]; simpl; eauto. destruct b; eauto. }
    destruct Hsome as [sv Hsv]. rewrite Hsv. simpl.
    destruct (existsb (dkim_aligned_pass from r) rs); simpl.
    - rewrite andb_false_r. simpl. split; discriminate.
    - destruct (existsb (dkim_aligned_temp from r) rs), (existsb (spf_aligned_pass from r) rs); simpl;
        destruct sv; simpl; split; auto; discriminate.
  Qed.

  Definition published (r : record) (pd from : str) : policy :=
    match r_sp r with
    | Some sp => if eqfold pd from then r_p r else sp
    | None => r_p r
    end.

  Lemma apply_published zone from pd r rs :
    fetch_record org zone from = FRec pd r ->
    let v := evaluate_alignment from r rs in
    v <> Pass -> v <> RNone ->
    apply org psuffix (HOne from) zone rs = (v, published r pd from).
  Proof.
    intros F v H1 H2. unfold apply. rewrite F. fold v. unfold published.
    destruct v; try tauto; reflexivity.
  Qed.

  Lemma apply_pass_accepts zone from pd r rs :
    fetch_record org zone from = FRec pd r ->
    evaluate_alignment from r rs = Pass ->
    apply org psuffix (HOne from) zone rs = (Pass, PNone).
  Proof. intros F H. unfold apply. rewrite F, H. reflexivity. Qed.

  Lemma action_reject v : v <> TempError -> action_of v PReject = Reject 550 5 7 1.
  Proof. destruct v; simpl; tauto. Qed.
  Lemma action_reject_temp : action_of TempError PReject = Reject 450 4 7 1.
  Proof. reflexivity. Qed.

  Lemma temp_dns_fail_closed zone from rs :
    fetch_record org zone from = FErrTempDns ->
    let '(v, p) := apply org psuffix (HOne from) zone rs in action_of v p = Reject 450 4 7 1.
  Proof. intros F. unfold apply. rewrite F. reflexivity. Qed.

  Lemma fetch_temp zone from :
    zone from = LErrTemp -> fetch_record org zone from = FErrTempDns.
  Proof. intros H. unfold fetch_record. rewrite H. reflexivity. Qed.

  Lemma fetch_temp_org zone from od :
    (zone from = LNotFound \/ zone from = LTxt []) -> org (lower_ascii from) = Some od ->
    zone od = LErrTemp -> fetch_record org zone from = FErrTempDns.
  Proof.
    intros H Ho Hz. unfold fetch_record. destruct H as [H|H]; rewrite H; simpl; rewrite Ho, Hz; reflexivity.
  Qed.

  Lemma fetch_org_fallback zone from od r :
    (zone from = LNotFound \/ zone from = LTxt []) -> org (lower_ascii from) = Some od ->
    zone od = LTxt [TDmarc (Some r)] -> fetch_record org zone from = FRec od r.
  Proof.
    intros H Ho Hz. unfold fetch_record. destruct H as [H|H]; rewrite H; simpl; rewrite Ho, Hz; reflexivity.
  Qed.

  Lemma fetch_at_domain zone from r :
    zone from = LTxt [TDmarc (Some r)] -> fetch_record org zone from = FRec from r.
  Proof. intros H. unfold fetch_record. rewrite H. reflexivity. Qed.

  Lemma bad_from_never_passes zone rs :
    apply org psuffix HBad zone rs = (PermError, PNone).
  Proof. reflexivity. Qed.
End PSL.
