(* C07 correspondence and monitor. *)
From Maddy Require Export Lib.Base Dmarc.Model Dmarc.Lemmas.
Local Open Scope N_scope.

Record tabs := { t_org : list (str * option str); t_suf : list (str * str) }.
Definition org_of (T : tabs) (d : str) : option str :=
  match alookup str_eqb d (t_org T) with Some v => v | None => None end.
Definition suf_of (T : tabs) (d : str) : str :=
  match alookup str_eqb d (t_suf T) with Some v => v | None => [] end.

(* DNS names are case-insensitive: the scripted resolver and the model zone are keyed by the
   lower-case domain *)
Definition zone_of (z : list (str * lres)) (d : str) : lres :=
  match alookup str_eqb (lower_ascii d) z with Some v => v | None => LNotFound end.

Record case := {
  c_hdr : from_hdr; c_zone : list (str * lres); c_rs : list ar; c_tabs : tabs;
  (* what the generator published: the policy record that applies and its domain; whether the
     decisive lookup fails temporarily *)
  c_rec : option (str * record); c_tempdns : bool;
  (* observed *)
  c_verdict : res; c_action : action;
  c_eval : option res            (* EvaluateAlignment called directly with c_rec's record *)
}.

Definition action_eqb (a b : action) : bool :=
  match a, b with
  | Accept, Accept | Quarantine, Quarantine => true
  | Reject c x y z, Reject c' x' y' z' => (Z.eqb c c' && Z.eqb x x' && Z.eqb y y' && Z.eqb z z')%bool
  | _, _ => false
  end.

Definition model_va (c : case) : res * action :=
  let T := c_tabs c in
  let '(v, p) := apply (org_of T) (suf_of T) (c_hdr c) (zone_of (c_zone c)) (c_rs c) in
  (v, action_of v p).
Definition model_eval (c : case) : option res :=
  match c_hdr c, c_rec c with
  | HOne from, Some (_, r) => Some (evaluate_alignment (org_of (c_tabs c)) (suf_of (c_tabs c)) from r (c_rs c))
  | _, _ => None
  end.

Definition agrees (c : case) : bool :=
  let '(v, a) := model_va c in
  res_eqb v (c_verdict c) && action_eqb a (c_action c)
  && option_eqb res_eqb (model_eval c) (c_eval c).
Definition mismatches (cs : list case) : list N := find_idx (fun c => negb (agrees c)) cs.

(* the specification evaluated on what the implementation returned *)
Definition monitor (c : case) : list N :=
  let T := c_tabs c in
  match c_hdr c with
  | HBad => if res_eqb (c_verdict c) Pass then [4] else []
  | HOne from =>
      if c_tempdns c then
        (if action_eqb (c_action c) (Reject 450 4 7 1) then [] else [3])
      else match c_rec c with
      | None => (if res_eqb (c_verdict c) Pass then [6] else []) ++
                (if action_eqb (c_action c) Accept then [] else [7])
      | Some (pd, r) =>
          let both := existsb is_dkim (c_rs c) && existsb is_spf (c_rs c)
                      && (length (filter is_spf (c_rs c)) <=? 1)%nat in
          let spec_pass := existsb (dkim_aligned_pass (org_of T) (suf_of T) from r) (c_rs c)
                           || existsb (spf_aligned_pass (org_of T) (suf_of T) from r) (c_rs c) in
          if negb both then [] else
          (if Bool.eqb (res_eqb (c_verdict c) Pass) spec_pass then [] else [1]) ++
          (if Bool.eqb (res_eqb (c_verdict c) TempError) (undecided (org_of T) (suf_of T) from r (c_rs c)) then [] else [8]) ++
          (if res_eqb (c_verdict c) Pass then (if action_eqb (c_action c) Accept then [] else [2])
           else if res_eqb (c_verdict c) RNone then []
           else if action_eqb (c_action c) (action_of (c_verdict c) (published r pd from)) then [] else [2]) ++
          (match published r pd from, c_verdict c, c_action c with
           | PReject, TempError, Reject 450 4 7 1 => []
           | PReject, TempError, _ => [5]
           | PReject, (Fail | PermError), Reject 550 5 7 1 => []
           | PReject, (Fail | PermError), _ => [5]
           | _, _, _ => []
           end)
      end
  end.

Definition monitor_failures (cs : list case) : list (N * list N) :=
  let fix go (i : N) (l : list case) :=
    match l with
    | [] => []
    | c :: t => match monitor c with [] => go (N.succ i) t | cl => (i, cl) :: go (N.succ i) t end
    end in go 0%N cs.

Definition res_tag (r : res) : N :=
  match r with Pass => 1 | Fail => 2 | RNone => 3 | Neutral => 4 | SoftFail => 5 | TempError => 6 | PermError => 7 end.
Definition tag (c : case) : N :=
  res_tag (c_verdict c)
  + (match c_action c with Accept => 0 | Quarantine => 8 | Reject _ _ _ _ => 16 end)
  + (match c_hdr c with HBad => 32 | _ => 0 end)
  + (match c_rec c with Some _ => 64 | None => 0 end) + (if c_tempdns c then 128 else 0).
Definition tags (cs : list case) : list N := map tag cs.
