From Maddy Require Import Lib.Base Dkim.Model Auth.Lemmas.
From Coq Require Import Lia.
Local Open Scope N_scope.

Definition occ (k : str) (l : list str) : nat := length (filter (str_eqb k) l).

Lemma occ_app k a b : occ k (a ++ b) = (occ k a + occ k b)%nat.
Proof. unfold occ. rewrite filter_app, app_length. reflexivity. Qed.
Lemma occ_repeat_same k n : occ k (repeat k n) = n.
Proof. induction n; cbn; [reflexivity|]. unfold occ in *. cbn. rewrite str_eqb_refl. cbn. rewrite IHn. reflexivity. Qed.
Lemma occ_repeat_other k k' n : str_eqb k k' = false -> occ k (repeat k' n) = 0%nat.
Proof. intro H. induction n; cbn; [reflexivity|]. unfold occ in *. cbn. rewrite H. exact IHn. Qed.

Lemma mem_b_in k l : mem_b str_eqb k l = true <-> In k l.
Proof.
  unfold mem_b. split.
  - intro H. apply existsb_exists in H as (x & Hx & E). apply str_eqb_eq in E. subst. exact Hx.
  - intro H. apply existsb_exists. exists k. split; [exact H|apply str_eqb_refl].
Qed.

Lemma mem_b_cons k k0 l : mem_b str_eqb k (k0 :: l) = str_eqb k k0 || mem_b str_eqb k l.
Proof. reflexivity. Qed.

(* the number of times a name is listed by one pass *)
Lemma fts_occ keys extra h k : forall seen,
  occ k (fst (fts keys extra seen h)) =
    if mem_b str_eqb k seen then 0%nat
    else if mem_b str_eqb k keys then (count_key k h + extra)%nat else 0%nat.
Proof.
  induction keys as [|k0 r IH]; intro seen; cbn [fts].
  - cbn. destruct (mem_b str_eqb k seen); reflexivity.
  - rewrite (mem_b_cons k k0 r). destruct (mem_b str_eqb k0 seen) eqn:Es.
    + rewrite IH. destruct (mem_b str_eqb k seen) eqn:Ek; [reflexivity|].
      destruct (str_eqb k k0) eqn:E; [|reflexivity].
      apply str_eqb_eq in E. subst k0. congruence.
    + destruct (fts r extra (k0 :: seen) h) as [res seen'] eqn:Ef. cbn [fst].
      rewrite occ_app. specialize (IH (k0 :: seen)). rewrite Ef in IH. cbn [fst] in IH. rewrite IH.
      rewrite (mem_b_cons k k0 seen).
      destruct (str_eqb k k0) eqn:E.
      * apply str_eqb_eq in E. subst k0. rewrite occ_repeat_same, Es. cbn [orb]. lia.
      * rewrite (occ_repeat_other k k0 _ E). cbn [orb plus]. reflexivity.
Qed.

Lemma fts_seen keys extra h : forall seen k,
  mem_b str_eqb k (snd (fts keys extra seen h)) = mem_b str_eqb k seen || mem_b str_eqb k keys.
Proof.
  induction keys as [|k0 r IH]; intros seen k; cbn [fts].
  - cbn. rewrite Bool.orb_false_r. reflexivity.
  - rewrite (mem_b_cons k k0 r). destruct (mem_b str_eqb k0 seen) eqn:Es.
    + rewrite IH. destruct (str_eqb k k0) eqn:E; [|reflexivity]. apply str_eqb_eq in E; subst.
      rewrite Es. reflexivity.
    + destruct (fts r extra (k0 :: seen) h) as [res seen'] eqn:Ef. cbn [snd].
      specialize (IH (k0 :: seen) k). rewrite Ef in IH. cbn [snd] in IH. rewrite IH.
      rewrite (mem_b_cons k k0 seen).
      destruct (str_eqb k k0), (mem_b str_eqb k seen), (mem_b str_eqb k r); reflexivity.
Qed.

(* an over-signed name is listed once more than it occurs; a name only in the sign list as often
   as it occurs *)
Lemma fields_to_sign_counts over sign h k :
  occ k (fields_to_sign over sign h) =
    if mem_b str_eqb k over then S (count_key k h)
    else if mem_b str_eqb k sign then count_key k h else 0%nat.
Proof.
  unfold fields_to_sign. destruct (fts over 1 [] h) as [r1 s1] eqn:E1. destruct (fts sign 0 s1 h) as [r2 s2] eqn:E2.
  rewrite occ_app.
  assert (A := fts_occ over 1 h k []). rewrite E1 in A. cbn [fst] in A. cbn [mem_b existsb] in A.
  assert (B := fts_occ sign 0 h k s1). rewrite E2 in B. cbn [fst] in B.
  assert (C := fts_seen over 1 h [] k). rewrite E1 in C. cbn [snd] in C. cbn [mem_b existsb orb] in C.
  unfold mem_b in A, B, C |- *. rewrite A, B, C.
  destruct (existsb (str_eqb k) over); [lia|]. destruct (existsb (str_eqb k) sign); lia.
Qed.

(* ---- the verifier's selection ---- *)
Definition is_pick (k : str) (o : option field) : bool := match o with Some f => str_eqb (fst f) k | None => false end.
Definition picks (k : str) (l : list (option field)) : nat := length (filter (is_pick k) l).

Lemma take_first_some k avail f avail' :
  take_first k avail = Some (f, avail') ->
  fst f = k /\ forall k', count_key k' avail = (count_key k' avail' + (if str_eqb k k' then 1 else 0))%nat.
Proof.
  revert f avail'; induction avail as [|g r IH]; intros f avail' H; cbn in H; [discriminate|].
  destruct (str_eqb (fst g) k) eqn:E.
  - inversion H; subst. apply str_eqb_eq in E. split; [exact E|]. intro k'. unfold count_key. cbn.
    rewrite <- E. destruct (str_eqb (fst f) k'); cbn; lia.
  - destruct (take_first k r) as [[g' r']|] eqn:Et; [|discriminate]. inversion H; subst.
    destruct (IH _ _ eq_refl) as [A B]. split; [exact A|]. intro k'. unfold count_key in *. cbn.
    destruct (str_eqb (fst g) k'); cbn; rewrite B; lia.
Qed.
Lemma take_first_none k avail : take_first k avail = None -> count_key k avail = 0%nat.
Proof.
  induction avail as [|g r IH]; intro H; [reflexivity|]. cbn in H. unfold count_key. cbn.
  destruct (str_eqb (fst g) k) eqn:E; [discriminate|]. destruct (take_first k r) as [[? ?]|]; [discriminate|]. apply IH. reflexivity.
Qed.

Lemma select_picks k names : forall avail, picks k (select names avail) = Nat.min (occ k names) (count_key k avail).
Proof.
  induction names as [|n r IH]; intro avail; [reflexivity|]. cbn [select].
  destruct (take_first n avail) as [[f avail']|] eqn:Et.
  - destruct (take_first_some _ _ _ _ Et) as [A B]. unfold picks, occ in *. cbn [filter is_pick].
    rewrite A. rewrite (str_eqb_sym k n). specialize (B k). destruct (str_eqb n k) eqn:E; cbn [length].
    + rewrite IH, B. lia.
    + rewrite IH, B. lia.
  - assert (Z := take_first_none _ _ Et). unfold picks, occ in *. cbn [filter is_pick]. rewrite IH.
    rewrite (str_eqb_sym k n). destruct (str_eqb n k) eqn:E; cbn [length]; [|reflexivity].
    apply str_eqb_eq in E. subst n. rewrite Z. lia.
Qed.

Lemma filter_rev_length {A : Type} (p : A -> bool) (l : list A) : length (filter p (rev l)) = length (filter p l).
Proof.
  induction l as [|x r IH]; [reflexivity|]. cbn [rev]. rewrite filter_app, app_length, IH. cbn [filter].
  destruct (p x); cbn [length]; lia.
Qed.
Lemma count_key_rev k h : count_key k (rev h) = count_key k h.
Proof. unfold count_key. apply filter_rev_length. Qed.

(* two headers in which an over-signed (or fully signed) name occurs a different number of times
   never select the same fields *)
Lemma hash_input_differs names h h' k :
  (count_key k h <= occ k names)%nat -> (count_key k h' <= occ k names)%nat -> count_key k h <> count_key k h' ->
  hash_input names h <> hash_input names h'.
Proof.
  intros H1 H2 Hne E. assert (P : picks k (hash_input names h) = picks k (hash_input names h')) by (rewrite E; reflexivity).
  unfold hash_input in P. rewrite !select_picks, !count_key_rev in P. lia.
Qed.

Lemma count_key_in f h : In f h -> (1 <= count_key (fst f) h)%nat.
Proof.
  induction h as [|g r IH]; intro H; [destruct H|]. unfold count_key in *. cbn [filter].
  destruct H as [H|H].
  - subst. rewrite str_eqb_refl. cbn. lia.
  - specialize (IH H). destruct (str_eqb (fst g) (fst f)); cbn [length]; lia.
Qed.
Lemma take_first_in k avail g avail' f :
  take_first k avail = Some (g, avail') -> In f avail -> f = g \/ In f avail'.
Proof.
  revert g avail'; induction avail as [|x r IH]; intros g avail' H Hin; [destruct Hin|]. cbn in H.
  destruct (str_eqb (fst x) k).
  - inversion H; subst. destruct Hin; [left; auto|right; auto].
  - destruct (take_first k r) as [[g' r']|] eqn:E; [|discriminate]. inversion H; subst.
    destruct Hin as [Hx|Hr]; [right; left; exact Hx|]. destruct (IH _ _ eq_refl Hr); [left; auto|right; right; auto].
Qed.

(* every instance of a name listed at least as often as it occurs is part of the hash input *)
Lemma select_all names : forall avail f,
  In f avail -> (count_key (fst f) avail <= occ (fst f) names)%nat -> In (Some f) (select names avail).
Proof.
  induction names as [|n r IH]; intros avail f Hin Hc.
  - assert (H := count_key_in f avail Hin). cbn in Hc. lia.
  - cbn [select]. destruct (take_first n avail) as [[g avail']|] eqn:Et.
    + destruct (take_first_in _ _ _ _ f Et Hin) as [Hg|Hr]; [subst; left; reflexivity|].
      right. apply IH; [exact Hr|]. destruct (take_first_some _ _ _ _ Et) as [A B]. specialize (B (fst f)).
      unfold occ in *. cbn [filter] in Hc. rewrite (str_eqb_sym (fst f) n) in Hc.
      destruct (str_eqb n (fst f)); cbn [length] in Hc; lia.
    + right. apply IH; [exact Hin|]. assert (Z := take_first_none _ _ Et). assert (P := count_key_in f avail Hin).
      unfold occ in *. cbn [filter] in Hc. destruct (str_eqb (fst f) n) eqn:E; [|exact Hc].
      apply str_eqb_eq in E. subst n. lia.
Qed.
