(* C08: what is maddy's own in DKIM signing: the list of header field names to sign
   (modify.dkim fieldsToSign: every instance of a configured field, one more for over-signed
   fields), and the verifier's selection of header field instances for an h= list (RFC 6376
   5.4.2: bottom-up, an exhausted name selects nothing).  Definitions only. *)
From Maddy Require Export Lib.Base.
Local Open Scope N_scope.

Definition field := (str * list N)%type.          (* lower-case name, raw field *)
Definition header := list field.                   (* top to bottom *)

Definition count_key (k : str) (h : header) : nat := length (filter (fun f => str_eqb (fst f) k) h).

(* one pass over a list of configured names (lower case), [seen] carrying the names already handled *)
Fixpoint fts (keys : list str) (extra : nat) (seen : list str) (h : header) : list str * list str :=
  match keys with
  | [] => ([], seen)
  | k :: r =>
      if mem_b str_eqb k seen then fts r extra seen h
      else let '(res, seen') := fts r extra (k :: seen) h in (repeat k (count_key k h + extra) ++ res, seen')
  end.
Definition fields_to_sign (oversign sign : list str) (h : header) : list str :=
  let '(r1, s1) := fts oversign 1 [] h in
  let '(r2, _) := fts sign 0 s1 h in r1 ++ r2.

(* the verifier: instances still available, bottom first *)
Fixpoint take_first (k : str) (avail : header) : option (field * header) :=
  match avail with
  | [] => None
  | f :: r => if str_eqb (fst f) k then Some (f, r)
              else match take_first k r with Some (g, r') => Some (g, f :: r') | None => None end
  end.
Fixpoint select (names : list str) (avail : header) : list (option field) :=
  match names with
  | [] => []
  | k :: r => match take_first k avail with
              | Some (f, avail') => Some f :: select r avail'
              | None => None :: select r avail
              end
  end.
(* what goes into the header hash, before canonicalization of each selected field *)
Definition hash_input (names : list str) (h : header) : list (option field) := select names (rev h).
