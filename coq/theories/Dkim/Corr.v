(* C08 correspondence and monitor *)
From Maddy Require Export Lib.Base Wire.Dot Dkim.Model.
Local Open Scope N_scope.

Inductive case :=
| CSign (over sign hkeys hnames : list str)           (* configuration, header field names top to bottom, the h= tag *)
| CWire (lines : list bytes) (wire received : bytes)  (* message lines; bytes after DATA on the wire; what the next hop's session read *)
| CE2E (verified : bool) (benign : bool) (tampered : list (N * bool)).   (* verification results at the next hop *)

Definition bytes_eqb := list_eqb N.eqb.

Definition agrees (c : case) : bool :=
  match c with
  | CSign over sign hkeys hnames =>
      list_eqb str_eqb (fields_to_sign over sign (map (fun k => (k, [])) hkeys)) hnames
  | CWire lines wire received =>
      bytes_eqb (dot_encode (of_lines lines)) wire &&
      match dot_decode wire with Some r => bytes_eqb r received | None => false end
  | CE2E _ _ _ => true
  end.
Definition mismatches (cs : list case) : list N := find_idx (fun c => negb (agrees c)) cs.

Definition monitor (c : case) : list N :=
  match c with
  | CSign over sign hkeys hnames =>
      (* every over-signed name is listed once more than it occurs, every signed name as often *)
      if forallb (fun k : str => Nat.eqb (length (filter (str_eqb k) hnames))
                                   (length (filter (str_eqb k) hkeys) + (if mem_b str_eqb k over then 1 else 0)))
                 (over ++ sign) then [] else [4]
  | CWire lines wire received => if bytes_eqb received (of_lines lines) then [] else [2]
  | CE2E v b t =>
      (if v then [] else [1]) ++ (if b then [] else [5]) ++
      flat_map (fun p : N * bool => if snd p then [3] else []) t
  end.

Definition dedup_N (l : list N) : list N :=
  fold_right (fun x acc => if existsb (N.eqb x) acc then acc else x :: acc) [] l.
Definition monitor_failures (cs : list case) : list (N * list N) :=
  let fix go (i : N) (l : list case) :=
    match l with
    | [] => []
    | c :: t => match dedup_N (monitor c) with [] => go (N.succ i) t | cl => (i, cl) :: go (N.succ i) t end
    end in go 0%N cs.

Definition tag (c : case) : N :=
  match c with
  | CSign _ _ hk _ => 1 + (if Nat.ltb 5 (length hk) then 2 else 0)
  | CWire ls _ _ => 4 + (if existsb (fun l => match l with 46 :: _ => true | _ => false end) ls then 8 else 0)
                      + (if existsb (fun l => match l with [] => true | _ => false end) ls then 16 else 0)
  | CE2E v _ t => 32 + (if v then 64 else 0) + (match t with [] => 0 | _ => 128 end)
  end.
Definition tags (cs : list case) : list N := map tag cs.
