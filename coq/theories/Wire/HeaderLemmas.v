(* Proofs about Wire/Header.v: printing then parsing a header returns the same raw fields. *)
From Maddy Require Import Lib.Base Wire.Header.
Local Open Scope N_scope.

Lemma take_line_crlf l rest :
  line_ok l = true -> take_line (l ++ CR :: LF :: rest) = (l ++ [CR], Some rest).
Proof.
  unfold line_ok. induction l as [|c l IH]; simpl; intros H.
  - reflexivity.
  - apply andb_true_iff in H as [Hc Hl]. apply negb_true_iff in Hc. rewrite Hc.
    rewrite (IH Hl). reflexivity.
Qed.

Lemma strip_cr_snoc l : strip_cr (l ++ [CR]) = l.
Proof. unfold strip_cr. rewrite rev_app_distr. simpl. apply rev_involutive. Qed.

Lemma read_line_crlf l rest :
  line_ok l = true -> read_line (l ++ CRLF ++ rest) = (l, rest).
Proof.
  intros H. unfold read_line, CRLF. simpl app. rewrite (take_line_crlf l rest H), strip_cr_snoc. reflexivity.
Qed.

Lemma starts_wsp_app l rest : l <> [] -> starts_wsp (l ++ rest) = starts_wsp l.
Proof. destruct l; [tauto|reflexivity]. Qed.

Lemma read_conts_spec conts : forall fuel acc rest,
  forallb (fun l => line_ok l && starts_wsp l) conts = true -> starts_wsp rest = false ->
  (length conts <= fuel)%nat ->
  read_conts fuel acc (join_lines conts ++ rest) = (acc ++ join_lines conts, rest).
Proof.
  induction conts as [|l conts IH]; intros fuel acc rest Hc Hr Hf.
  - simpl. rewrite app_nil_r. destruct fuel; simpl; [reflexivity|]. rewrite Hr. reflexivity.
  - simpl in Hc. apply andb_true_iff in Hc as [Hl Hcs]. apply andb_true_iff in Hl as [Hok Hw].
    destruct fuel as [|fuel]; [simpl in Hf; lia|].
    unfold join_lines. simpl map. simpl concat. fold (join_lines conts).
    rewrite <- !app_assoc. cbn [read_conts].
    assert (Hne : l <> []) by (destruct l; [discriminate|discriminate]).
    rewrite (starts_wsp_app l _ Hne), Hw.
    replace (l ++ CRLF ++ join_lines conts ++ rest) with (l ++ CRLF ++ (join_lines conts ++ rest)) by reflexivity.
    rewrite (read_line_crlf l _ Hok).
    rewrite IH; auto; [|simpl in Hf; lia]. rewrite <- !app_assoc. reflexivity.
Qed.

Lemma join_lines_length conts : (length conts <= length (join_lines conts))%nat.
Proof.
  induction conts as [|l conts IH]; simpl; [lia|]. unfold join_lines in *. simpl.
  rewrite !app_length. simpl. lia.
Qed.

Lemma read_continued_field f rest :
  wf_raw f = true -> starts_wsp rest = false ->
  read_continued (rf_bytes f ++ rest) = (Some (rf_bytes f), rest).
Proof.
  unfold wf_raw. rewrite !andb_true_iff. intros ((((Hok & Hnw) & Hne) & Hc) & _) Hr.
  destruct (rf_first f) as [|c0 l0] eqn:Ef; [discriminate|].
  assert (Hin : rf_bytes f ++ rest = (c0 :: l0) ++ CRLF ++ (join_lines (rf_conts f) ++ rest)).
  { unfold rf_bytes. rewrite Ef. unfold join_lines. cbn [map concat]. rewrite <- !app_assoc. reflexivity. }
  assert (Hrc : forall inp, inp <> [] ->
            read_continued inp =
            (let '(l, rest0) := read_line inp in
             match l with
             | [] => (None, rest0)
             | _ => let '(kv, rest') := read_conts (length rest0) (l ++ CRLF) rest0 in (Some kv, rest')
             end)).
  { intros inp Hi. destruct inp; [tauto|reflexivity]. }
  rewrite Hrc by (rewrite Hin; discriminate). rewrite Hin.
  rewrite (read_line_crlf (c0 :: l0) _ Hok).
  rewrite read_conts_spec; auto.
  - unfold rf_bytes. rewrite Ef. unfold join_lines. cbn [map concat]. rewrite <- !app_assoc. reflexivity.
  - rewrite app_length. pose proof (join_lines_length (rf_conts f)). lia.
Qed.

Lemma index_of_app c l r i : index_of c l = Some i -> index_of c (l ++ r) = Some i /\ (i < length l)%nat.
Proof.
  revert i. induction l as [|x l IH]; simpl; intros i H; [discriminate|].
  destruct (x =? c); [inversion H; subst; split; [reflexivity|lia]|].
  destruct (index_of c l) as [j|]; [|discriminate]. simpl in H. inversion H; subst.
  destruct (IH j eq_refl) as [-> Hj]. simpl. split; [reflexivity|lia].
Qed.

Lemma firstn_app_lt {A} (l r : list A) i : (i < length l)%nat -> firstn i (l ++ r) = firstn i l.
Proof. intros H. rewrite firstn_app. replace (i - length l)%nat with 0%nat by lia. simpl. apply app_nil_r. Qed.

Lemma field_key_ok f :
  wf_raw f = true ->
  exists i, index_of COLON (rf_bytes f) = Some i /\
            forallb valid_key_byte (trim (firstn i (rf_bytes f))) = true /\
            trim (firstn i (rf_bytes f)) <> [].
Proof.
  unfold wf_raw. rewrite !andb_true_iff. intros (_ & Hk).
  destruct (index_of COLON (rf_first f)) as [i|] eqn:Ei; [|discriminate].
  apply andb_true_iff in Hk as [Hv Hne].
  unfold rf_bytes, join_lines. simpl map. simpl concat. rewrite <- app_assoc.
  destruct (index_of_app COLON (rf_first f) (CRLF ++ concat (map (fun l => l ++ CRLF) (rf_conts f))) i Ei) as [-> Hlt].
  exists i. rewrite (firstn_app_lt _ _ i Hlt). repeat split; auto.
  destruct (trim (firstn i (rf_first f))); [discriminate|discriminate].
Qed.

Lemma first_byte_not_wsp f rest : wf_raw f = true -> starts_wsp (rf_bytes f ++ rest) = false.
Proof.
  unfold wf_raw. rewrite !andb_true_iff. intros ((((_ & Hnw) & Hne) & _) & _).
  unfold rf_bytes, join_lines. simpl. destruct (rf_first f); [discriminate|]. simpl in *.
  apply negb_true_iff in Hnw. exact Hnw.
Qed.

Lemma read_fields_spec fs : forall fuel acc body,
  forallb wf_raw fs = true -> (length fs < fuel)%nat ->
  read_fields fuel (concat (map rf_bytes fs) ++ CRLF ++ body) acc = HOk (rev acc ++ map rf_bytes fs) body.
Proof.
  induction fs as [|f fs IH]; intros fuel acc body Hwf Hf.
  - destruct fuel; [lia|]. simpl. rewrite app_nil_r. reflexivity.
  - simpl in Hwf. apply andb_true_iff in Hwf as [Hf1 Hfs].
    destruct fuel; [lia|]. simpl map. simpl concat. rewrite <- app_assoc. cbn [read_fields].
    assert (Hr : starts_wsp (concat (map rf_bytes fs) ++ CRLF ++ body) = false).
    { destruct fs as [|g fs']; [reflexivity|]. simpl in Hfs. apply andb_true_iff in Hfs as [Hg _].
      simpl map. simpl concat. rewrite <- app_assoc. apply first_byte_not_wsp. exact Hg. }
    rewrite (read_continued_field f _ Hf1 Hr).
    destruct (field_key_ok f Hf1) as (i & -> & Hv & Hne). rewrite Hv. simpl negb. cbv iota.
    destruct (trim (firstn i (rf_bytes f))) eqn:Et; [tauto|].
    rewrite IH; auto; [|simpl in Hf; lia]. simpl. rewrite <- app_assoc. reflexivity.
Qed.

(* printing a header and parsing it again gives the same raw fields, and leaves the body *)
Theorem header_parse_print fs body :
  forallb wf_raw fs = true ->
  read_header (write_header (map rf_bytes fs) ++ body) = HOk (map rf_bytes fs) body.
Proof.
  intros Hwf. unfold read_header, write_header. rewrite <- app_assoc.
  assert (Hs : starts_wsp (concat (map rf_bytes fs) ++ CRLF ++ body) = false).
  { destruct fs as [|g fs']; [reflexivity|]. simpl in Hwf. apply andb_true_iff in Hwf as [Hg _].
    simpl map. simpl concat. rewrite <- app_assoc. apply first_byte_not_wsp. exact Hg. }
  rewrite Hs. rewrite read_fields_spec; auto.
  rewrite !app_length. simpl.
  assert (length fs <= length (concat (map rf_bytes fs)))%nat.
  { clear -Hwf. induction fs as [|f fs IH]; simpl; [lia|]. simpl in Hwf. apply andb_true_iff in Hwf as [Hf Hfs].
    rewrite app_length. specialize (IH Hfs).
    assert (1 <= length (rf_bytes f))%nat.
    { unfold rf_bytes, join_lines. simpl. rewrite !app_length. simpl. lia. }
    lia. }
  lia.
Qed.
