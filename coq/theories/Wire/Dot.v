(* C08: the SMTP DATA transfer encoding.  The sender side is net/textproto's dotWriter (used by
   go-smtp's client), the receiving side go-smtp's dataReader; both are byte-level state
   machines, modelled as such.  Definitions only. *)
From Maddy Require Export Lib.Base.
Local Open Scope N_scope.

Definition bytes := list N.
Definition CR : N := 13.  Definition LF : N := 10.  Definition DOT : N := 46.

(* ---- dotWriter ---- *)
Inductive wstate := WBegin | WBeginLine | WData | WCR.
Definition wstep (s : wstate) (c : N) : wstate * bytes :=
  match s with
  | WBegin | WBeginLine =>
      let pre := if c =? DOT then [DOT] else [] in
      if c =? CR then (WCR, pre ++ [c])
      else if c =? LF then (WBeginLine, pre ++ [CR; c])
      else (WData, pre ++ [c])
  | WData =>
      if c =? CR then (WCR, [c])
      else if c =? LF then (WBeginLine, [CR; c])
      else (WData, [c])
  | WCR => if c =? LF then (WBeginLine, [c]) else (WData, [c])
  end.
Fixpoint wrun (s : wstate) (b : bytes) : wstate * bytes :=
  match b with
  | [] => (s, [])
  | c :: r => let '(s1, o1) := wstep s c in let '(s2, o2) := wrun s1 r in (s2, o1 ++ o2)
  end.
Definition wclose (s : wstate) : bytes :=
  match s with
  | WBeginLine => [DOT; CR; LF]
  | WCR => [LF; DOT; CR; LF]
  | _ => [CR; LF; DOT; CR; LF]
  end.
Definition dot_encode (b : bytes) : bytes := let '(s, o) := wrun WBegin b in o ++ wclose s.

(* ---- dataReader: the bytes handed to the session, and whether the end marker was seen ---- *)
Inductive rstate := RBeginLine | RDot | RDotCR | RCR | RData | REOF.
Definition rstep (s : rstate) (c : N) : rstate * bytes :=
  match s with
  | RBeginLine => if c =? DOT then (RDot, []) else if c =? CR then (RCR, [c]) else (RData, [c])
  | RDot => if c =? CR then (RDotCR, []) else (RData, [c])
  | RDotCR => if c =? LF then (REOF, []) else (RData, [c])
  | RCR => if c =? LF then (RBeginLine, [c]) else (RData, [c])
  | RData => if c =? CR then (RCR, [c]) else (RData, [c])
  | REOF => (REOF, [])
  end.
Fixpoint rrun (s : rstate) (b : bytes) : rstate * bytes :=
  match b with
  | [] => (s, [])
  | c :: r => match s with
              | REOF => (REOF, [])
              | _ => let '(s1, o1) := rstep s c in let '(s2, o2) := rrun s1 r in (s2, o1 ++ o2)
              end
  end.
Definition dot_decode (b : bytes) : option bytes :=
  match rrun RBeginLine b with (REOF, o) => Some o | _ => None end.

(* a message made of CRLF-terminated lines without CR or LF inside *)
Definition clean_line (l : bytes) : bool := forallb (fun c => negb (c =? CR) && negb (c =? LF)) l.
Definition of_lines (ls : list bytes) : bytes := flat_map (fun l => l ++ [CR; LF]) ls.
