(* correspondence of Wire/Header.v with go-message textproto.ReadHeader / WriteHeader *)
From Maddy Require Export Lib.Base Wire.Header.
Local Open Scope N_scope.

Record case := {
  c_inp : bytes;
  c_res : hres;                    (* ReadHeader: raw bytes of the fields top to bottom, unread rest *)
  c_written : option bytes;        (* WriteHeader of the parsed header *)
  c_reread_same : bool             (* ReadHeader(WriteHeader(h)) has the same raw fields *)
}.

Definition hres_eqb (a b : hres) : bool :=
  match a, b with
  | HOk f r, HOk f' r' => list_eqb (list_eqb N.eqb) f f' && list_eqb N.eqb r r'
  | HErr, HErr => true
  | _, _ => false
  end.

Definition agrees (c : case) : bool :=
  hres_eqb (read_header (c_inp c)) (c_res c)
  && match c_res c, c_written c with
     | HOk f _, Some w => list_eqb N.eqb (write_header f) w
     | HOk _ _, None => false
     | HErr, _ => true
     end.
Definition mismatches (cs : list case) : list N := find_idx (fun c => negb (agrees c)) cs.

Definition monitor (c : case) : list N :=
  match c_res c with
  | HOk _ _ => if c_reread_same c then [] else [1]
  | HErr => []
  end.
Definition monitor_failures (cs : list case) : list (N * list N) :=
  let fix go (i : N) (l : list case) :=
    match l with
    | [] => []
    | c :: t => match monitor c with [] => go (N.succ i) t | cl => (i, cl) :: go (N.succ i) t end
    end in go 0 cs.
Definition tag (c : case) : N :=
  match c_res c with HOk f r => 1 + N.min 20 (N.of_nat (length f)) + (match r with [] => 0 | _ => 32 end) | HErr => 0 end.
Definition tags (cs : list case) : list N := map tag cs.
