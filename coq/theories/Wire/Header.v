(* Wire/Header: byte-level model of go-message textproto.ReadHeader / WriteHeader as used by the
   queue spool (C10), the DKIM path (C08) and failure reports (C18).  A header is the list of
   the raw bytes of its fields.  Definitions only. *)
From Maddy Require Export Lib.Base.
Local Open Scope N_scope.

Definition bytes := list N.
Definition LF : N := 10.
Definition CR : N := 13.
Definition SP : N := 32.
Definition TAB : N := 9.
Definition COLON : N := 58.
Definition CRLF : bytes := [CR; LF].

Definition is_wsp (c : N) : bool := (c =? SP) || (c =? TAB).

(* up to the next LF: (bytes before it, Some rest-after-it | None at end of input) *)
Fixpoint take_line (inp : bytes) : bytes * option bytes :=
  match inp with
  | [] => ([], None)
  | c :: t => if c =? LF then ([], Some t)
              else let '(l, r) := take_line t in (c :: l, r)
  end.

Definition strip_cr (l : bytes) : bytes :=
  match rev l with
  | c :: t => if c =? CR then rev t else l
  | [] => l
  end.

(* bufio.Reader.ReadLine (lines of any length): the line without its end, and the rest *)
Definition read_line (inp : bytes) : bytes * bytes :=
  match take_line inp with
  | (l, Some rest) => (strip_cr l, rest)
  | (l, None) => (l, [])
  end.

Definition starts_wsp (inp : bytes) : bool :=
  match inp with c :: _ => is_wsp c | [] => false end.

(* continuation lines of readContinuedLineSlice *)
Fixpoint read_conts (fuel : nat) (acc inp : bytes) : bytes * bytes :=
  match fuel with
  | O => (acc, inp)
  | S f =>
      if starts_wsp inp then
        let '(l, rest) := read_line inp in read_conts f (acc ++ l ++ CRLF) rest
      else (acc, inp)
  end.

(* readContinuedLineSlice: None = end of header (blank line or end of input) *)
Definition read_continued (inp : bytes) : option bytes * bytes :=
  match inp with
  | [] => (None, [])
  | _ =>
      let '(l, rest) := read_line inp in
      match l with
      | [] => (None, rest)
      | _ => let '(kv, rest') := read_conts (length rest) (l ++ CRLF) rest in (Some kv, rest')
      end
  end.

Fixpoint index_of (c : N) (l : bytes) : option nat :=
  match l with
  | [] => None
  | x :: t => if x =? c then Some O else option_map S (index_of c t)
  end.

Fixpoint drop_wsp (l : bytes) : bytes :=
  match l with c :: t => if is_wsp c then drop_wsp t else l | [] => [] end.
Definition trim (l : bytes) : bytes := rev (drop_wsp (rev (drop_wsp l))).

Definition valid_key_byte (c : N) : bool := (33 <=? c) && (c <=? 126) && negb (c =? COLON).

Inductive hres := HOk (fields : list bytes) (rest : bytes) | HErr.

(* the loop of ReadHeader *)
Fixpoint read_fields (fuel : nat) (inp : bytes) (acc : list bytes) : hres :=
  match fuel with
  | O => HErr
  | S f =>
      match read_continued inp with
      | (None, rest) => HOk (rev acc) rest
      | (Some kv, rest) =>
          match index_of COLON kv with
          | None => HErr
          | Some i =>
              let key := trim (firstn i kv) in
              if negb (forallb valid_key_byte key) then HErr
              else match key with
                   | [] => read_fields f rest acc            (* empty field name: the field is dropped *)
                   | _ => read_fields f rest (kv :: acc)
                   end
          end
      end
  end.

Definition read_header (inp : bytes) : hres :=
  if starts_wsp inp then HErr else read_fields (S (length inp)) inp [].

(* WriteHeader for fields that carry their raw bytes *)
Definition write_header (fields : list bytes) : bytes := concat fields ++ CRLF.

(* ---- raw fields that survive printing and parsing ---- *)
Definition line_ok (l : bytes) : bool := forallb (fun c => negb (c =? LF)) l.
Definition join_lines (ls : list bytes) : bytes := concat (map (fun l => l ++ CRLF) ls).

(* a raw field: first line + continuation lines *)
Record rawfield := { rf_first : bytes; rf_conts : list bytes }.
Definition rf_bytes (f : rawfield) : bytes := join_lines (rf_first f :: rf_conts f).
Definition wf_raw (f : rawfield) : bool :=
  line_ok (rf_first f) && negb (starts_wsp (rf_first f))
  && match rf_first f with [] => false | _ => true end
  && forallb (fun l => line_ok l && starts_wsp l) (rf_conts f)
  && match index_of COLON (rf_first f) with
     | Some i => let key := trim (firstn i (rf_first f)) in
                 forallb valid_key_byte key && match key with [] => false | _ => true end
     | None => false
     end.
