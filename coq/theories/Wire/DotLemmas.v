From Maddy Require Import Lib.Base Wire.Dot.
From Coq Require Import Lia.
Local Open Scope N_scope.

Lemma wrun_app s a b : wrun s (a ++ b) = let '(s1, o1) := wrun s a in let '(s2, o2) := wrun s1 b in (s2, o1 ++ o2).
Proof.
  revert s; induction a as [|c a IH]; intro s; cbn [app wrun].
  - destruct (wrun s b); reflexivity.
  - destruct (wstep s c) as [s1 o1]. rewrite IH. destruct (wrun s1 a) as [s2 o2]. destruct (wrun s2 b) as [s3 o3].
    rewrite app_assoc. reflexivity.
Qed.
Lemma rrun_app s a b : fst (rrun s a) <> REOF ->
  rrun s (a ++ b) = let '(s1, o1) := rrun s a in let '(s2, o2) := rrun s1 b in (s2, o1 ++ o2).
Proof.
  revert s; induction a as [|c a IH]; intros s H; cbn [app rrun].
  - destruct (rrun s b); reflexivity.
  - destruct s; try (cbn in H; congruence);
      (destruct (rstep _ c) as [s1 o1] eqn:E; cbn [rrun] in H; rewrite E in H;
       destruct (rrun s1 a) as [s2 o2] eqn:E2; cbn [fst] in H;
       rewrite IH by (rewrite E2; exact H); rewrite E2; destruct (rrun s2 b) as [s3 o3]; rewrite app_assoc; reflexivity).
Qed.

(* the body of a line (no CR, no LF) through the writer in the middle of a line *)
Lemma wrun_data l : clean_line l = true -> wrun WData l = (WData, l).
Proof.
  induction l as [|c l IH]; intro H; [reflexivity|]. cbn in H. apply andb_prop in H as [Hc Hl]. apply andb_prop in Hc as [H1 H2].
  cbn [wrun wstep]. apply Bool.negb_true_iff in H1, H2. rewrite H1, H2. rewrite (IH Hl). reflexivity.
Qed.
Lemma rrun_data l : clean_line l = true -> rrun RData l = (RData, l).
Proof.
  induction l as [|c l IH]; intro H; [reflexivity|]. cbn in H. apply andb_prop in H as [Hc Hl]. apply andb_prop in Hc as [H1 H2].
  cbn [rrun rstep]. apply Bool.negb_true_iff in H1. rewrite H1. rewrite (IH Hl). reflexivity.
Qed.

Definition stuffed (l : bytes) : bytes := match l with c :: _ => if c =? DOT then DOT :: l else l | [] => l end.

(* one line from the beginning of a line *)
Lemma wrun_line s l : (s = WBegin \/ s = WBeginLine) -> clean_line l = true ->
  wrun s (l ++ [CR; LF]) = (WBeginLine, stuffed l ++ [CR; LF]).
Proof.
  intros Hs H. destruct l as [|c l].
  - destruct Hs; subst; reflexivity.
  - cbn in H. apply andb_prop in H as [Hc Hl]. apply andb_prop in Hc as [H1 H2]. apply Bool.negb_true_iff in H1, H2.
    cbn [app wrun]. assert (E : wstep s c = (WData, (if c =? DOT then [DOT] else []) ++ [c])).
    { destruct Hs; subst; cbn; rewrite H1, H2; reflexivity. }
    rewrite E. rewrite wrun_app, (wrun_data l Hl). cbn. unfold stuffed. destruct (c =? DOT); reflexivity.
Qed.
Lemma rrun_cons s c r : s <> REOF ->
  rrun s (c :: r) = let '(s1, o1) := rstep s c in let '(s2, o2) := rrun s1 r in (s2, o1 ++ o2).
Proof. intro H. destruct s; try contradiction; reflexivity. Qed.
Lemma rrun_data_crlf l : clean_line l = true -> rrun RData (l ++ [CR; LF]) = (RBeginLine, l ++ [CR; LF]).
Proof.
  intro H. rewrite rrun_app by (rewrite (rrun_data l H); discriminate). rewrite (rrun_data l H). reflexivity.
Qed.
Lemma rrun_line l : clean_line l = true -> rrun RBeginLine (stuffed l ++ [CR; LF]) = (RBeginLine, l ++ [CR; LF]).
Proof.
  intro H. destruct l as [|c l]; [reflexivity|].
  assert (H' := H). cbn in H'. apply andb_prop in H' as [Hc Hl]. apply andb_prop in Hc as [H1 H2]. apply Bool.negb_true_iff in H1, H2.
  unfold stuffed. destruct (c =? DOT) eqn:Ed.
  - apply N.eqb_eq in Ed. subst c. cbn [app].
    rewrite rrun_cons by discriminate. cbn [rstep]. replace (DOT =? DOT) with true by reflexivity.
    rewrite rrun_cons by discriminate. cbn [rstep]. replace (DOT =? CR) with false by reflexivity.
    rewrite (rrun_data_crlf l Hl). reflexivity.
  - cbn [app]. rewrite rrun_cons by discriminate. cbn [rstep]. rewrite Ed, H1. rewrite (rrun_data_crlf l Hl). reflexivity.
Qed.

Lemma wrun_lines ls : forall s, (s = WBegin \/ s = WBeginLine) -> forallb clean_line ls = true ->
  wrun s (of_lines ls) = ((match ls with [] => s | _ => WBeginLine end), of_lines (map stuffed ls)).
Proof.
  induction ls as [|l ls IH]; intros s Hs H; [reflexivity|]. cbn in H. apply andb_prop in H as [Hl Hls].
  unfold of_lines. cbn [flat_map map]. fold (of_lines ls). fold (of_lines (map stuffed ls)).
  rewrite wrun_app, (wrun_line s l Hs Hl). rewrite (IH WBeginLine (or_intror eq_refl) Hls).
  destruct ls; reflexivity.
Qed.
Lemma rrun_lines ls : forallb clean_line ls = true ->
  rrun RBeginLine (of_lines (map stuffed ls)) = (RBeginLine, of_lines ls).
Proof.
  induction ls as [|l ls IH]; intro H; [reflexivity|]. cbn in H. apply andb_prop in H as [Hl Hls].
  unfold of_lines. cbn [flat_map map]. fold (of_lines ls). fold (of_lines (map stuffed ls)).
  rewrite rrun_app by (rewrite (rrun_line l Hl); discriminate). rewrite (rrun_line l Hl), (IH Hls). reflexivity.
Qed.

(* what the next hop reads is what was written: any non-empty sequence of CRLF-terminated lines *)
Lemma dot_roundtrip ls : ls <> [] -> forallb clean_line ls = true -> dot_decode (dot_encode (of_lines ls)) = Some (of_lines ls).
Proof.
  intros Hne H. unfold dot_encode. rewrite (wrun_lines ls WBegin (or_introl eq_refl) H).
  destruct ls as [|l ls]; [contradiction|]. cbn [wclose]. unfold dot_decode.
  rewrite rrun_app by (rewrite (rrun_lines _ H); discriminate). rewrite (rrun_lines _ H). cbn. rewrite app_nil_r. reflexivity.
Qed.
