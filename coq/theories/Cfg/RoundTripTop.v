(* C20: printing a tree in canonical syntax and reading it again yields the same tree.
   Part 3: imports, environment, the oracles, the theorem.  Proofs. *)
From Maddy Require Import Lib.Base Cfg.Model Cfg.Lemmas Cfg.RoundTrip Cfg.RoundTripParse.
Local Open Scope Z_scope.

Section Top.
  Variable is_space_u is_letter_u is_digit_u : N -> bool.
  Variable files : str -> option (list N).
  Variable env : list (str * str).
  Notation valid_name := (valid_name is_letter_u is_digit_u).
  Notation expand_imports := (expand_imports is_space_u is_letter_u is_digit_u files).
  Notation read_tree := (read_tree is_space_u is_letter_u is_digit_u files).
  Notation pok := (pok is_letter_u is_digit_u).

  (* ---- imports: a tree without import directives is left alone ---- *)
  Fixpoint noimp (n : node) : bool :=
    let '(Node name _ ch _ _ _) := n in
    negb (str_eqb name IMPORT) && match ch with None => true | Some l => forallb noimp l end.
  Fixpoint height (n : node) : nat :=
    let '(Node _ _ ch _ _ _) := n in
    S (match ch with
       | None => 0%nat
       | Some l => (fix go (l : list node) : nat := match l with [] => 0%nat | x :: t => Nat.max (height x) (go t) end) l
       end).
  Definition heights (l : list node) : nat :=
    (fix go (l : list node) : nat := match l with [] => 0%nat | x :: t => Nat.max (height x) (go t) end) l.
  Lemma heights_cons x t : heights (x :: t) = Nat.max (height x) (heights t). Proof. reflexivity. Qed.
  Lemma height_eq name args ch sn mc ln :
    height (Node name args ch sn mc ln) = S (match ch with None => 0%nat | Some l => heights l end).
  Proof. reflexivity. Qed.

  Lemma expand_imports_S f s n d :
    expand_imports (S f) s n d = expand_imports_body files (expand_imports f) (read_tree f) s n d.
  Proof. reflexivity. Qed.

  Lemma expand_imports_id : forall n fuel s d,
    noimp n = true -> (height n <= fuel)%nat -> expand_imports fuel s n d = POk (n, s).
  Proof.
    induction n as [name args sn mc ln|name args l sn mc ln IHl] using node_ind2; intros fuel s d Hn Hf;
      rewrite height_eq in Hf; destruct fuel as [|f]; try lia; rewrite expand_imports_S; unfold expand_imports_body;
      [reflexivity|].
    cbn [noimp] in Hn. apply andb_true_iff in Hn. destruct Hn as [_ Hc].
    assert (K : forall l0 acc, Forall (fun n => forall fuel s d, noimp n = true -> (height n <= fuel)%nat ->
                                        expand_imports fuel s n d = POk (n, s)) l0 ->
                forallb noimp l0 = true -> (heights l0 <= f)%nat ->
                imports_go files (fun s0 x => expand_imports f s0 x (d + 1)) (fun b => read_tree f b (d + 1)) d l0 s acc false
                = POk (acc ++ l0, s, false)).
    { clear. induction l0 as [|x t IHt]; intros acc HF Hc Hh.
      - cbn [imports_go]. rewrite app_nil_r. reflexivity.
      - inversion HF as [|? ? Hx Ht]; subst. cbn [forallb] in Hc. apply andb_true_iff in Hc. destruct Hc as [Cx Ct].
        rewrite heights_cons in Hh. cbn [imports_go]. rewrite (Hx f s (d + 1) Cx) by lia.
        destruct x as [nm ar ch sn mc ln]. cbn [n_name]. cbn [noimp] in Cx. apply andb_true_iff in Cx.
        destruct Cx as [Ci _]. apply negb_true_iff in Ci. rewrite Ci.
        rewrite (IHt (acc ++ [Node nm ar ch sn mc ln]) Ht Ct) by lia. rewrite <- app_assoc. reflexivity. }
    rewrite (K l [] IHl Hc) by lia. reflexivity.
  Qed.

  (* ---- environment placeholders ---- *)
  Lemma has_prefix_app a b s : has_prefix (a ++ b) s = true -> has_prefix a s = true.
  Proof.
    revert s. induction a as [|x a IH]; intros s H; [destruct s; reflexivity|].
    destruct s as [|y s]; [discriminate|]. cbn [app has_prefix] in *. apply andb_true_iff in H.
    destruct H as [H1 H2]. rewrite H1. cbn. exact (IH s H2).
  Qed.
  Lemma contains_cons p c t : contains p (c :: t) = false -> has_prefix p (c :: t) = false /\ contains p t = false.
  Proof. cbn [contains]. intros H. apply orb_false_iff in H. exact H. Qed.

  Lemma env_replace_noenv fuel s : contains ENVP s = false -> env_replace env fuel s = s.
  Proof.
    revert s. induction fuel as [|f IH]; intros s H; [reflexivity|].
    destruct s as [|c t]; [reflexivity|]. apply contains_cons in H. destruct H as [Hp Ht].
    cbn [env_replace].
    assert (F : find (fun kv => has_prefix (ENVP ++ fst kv ++ [RB]) (c :: t)) env = None).
    { apply find_none_all. intros kv. destruct (has_prefix (ENVP ++ fst kv ++ [RB]) (c :: t)) eqn:E; [|reflexivity].
      apply has_prefix_app in E. congruence. }
    rewrite F, IH by exact Ht. reflexivity.
  Qed.
  Lemma remove_unexpanded_noenv fuel s : contains ENVP s = false -> remove_unexpanded fuel s = s.
  Proof.
    revert s. induction fuel as [|f IH]; intros s H; [reflexivity|].
    destruct s as [|c t]; [reflexivity|]. apply contains_cons in H. destruct H as [Hp Ht].
    cbn [remove_unexpanded]. rewrite Hp, IH by exact Ht. reflexivity.
  Qed.
  Lemma env_str_noenv s : contains ENVP s = false -> env_str env s = s.
  Proof. intros H. unfold env_str. rewrite env_replace_noenv by exact H. apply remove_unexpanded_noenv, H. Qed.

  Fixpoint noenv (n : node) : bool :=
    let '(Node name args ch _ _ _) := n in
    valid_name name && forallb (fun a => negb (contains ENVP a)) args &&
    match ch with None => true | Some l => forallb noenv l end.
  Lemma expand_env_id : forall n, noenv n = true -> expand_env env n = n.
  Proof.
    induction n as [name args sn mc ln|name args l sn mc ln IHl] using node_ind2; intros H;
      cbn [noenv] in H; rewrite !andb_true_iff in H; destruct H as [[Hv Ha] Hc]; cbn [expand_env];
      rewrite (env_str_valid is_space_u is_letter_u is_digit_u files env _ Hv);
      (assert (Ea : map (env_str env) args = args);
       [ clear -Ha; induction args as [|a t IH]; [reflexivity|]; cbn [forallb] in Ha; apply andb_true_iff in Ha;
         destruct Ha as [H1 H2]; apply negb_true_iff in H1; cbn [map]; rewrite (env_str_noenv a H1), (IH H2); reflexivity |]);
      rewrite Ea; [reflexivity|].
    assert (El : map (expand_env env) l = l).
    { clear -IHl Hc. induction l as [|x t IHt]; [reflexivity|]. inversion IHl as [|? ? Hx Ht]; subst.
      cbn [forallb] in Hc. apply andb_true_iff in Hc. destruct Hc as [Cx Ct]. cbn [map]. rewrite (Hx Cx), (IHt Ht Ct). reflexivity. }
    rewrite El. reflexivity.
  Qed.

  (* ---- the Unicode oracles ---- *)
  Hypothesis Hdisj : forall c, (128 <= c)%N -> (is_letter_u c || is_digit_u c)%bool = true -> is_space_u c = false.
  Hypothesis Hbom : is_letter_u 65279%N = false /\ is_digit_u 65279%N = false.
  Notation namechar := (namechar is_letter_u is_digit_u).
  Notation wchar := (wchar is_space_u).

  Lemma ascii_namechar_wchar :
    forallb (fun k => let c := N.of_nat k in implb (namechar c) (wchar c)) (seq 0 128) = true.
  Proof. vm_compute. reflexivity. Qed.

  Lemma namechar_wchar c : namechar c = true -> wchar c = true.
  Proof.
    intros H. destruct (N.ltb_spec c 128) as [Hlt|Hge].
    - pose proof ascii_namechar_wchar as A. rewrite forallb_forall in A.
      specialize (A (N.to_nat c)). rewrite N2Nat.id in A. cbv zeta in A.
      assert (Hin : In (N.to_nat c) (seq 0 128)) by (apply in_seq; lia).
      specialize (A Hin). rewrite H in A. exact A.
    - unfold RoundTripParse.namechar, is_letter, is_digit, allowed_punct in H.
      destruct (N.ltb_spec c 128) as [Hx|_]; [lia|].
      assert (E1 : N.eqb c 46 = false) by (apply N.eqb_neq; lia).
      assert (E2 : N.eqb c 45 = false) by (apply N.eqb_neq; lia).
      assert (E3 : N.eqb c 95 = false) by (apply N.eqb_neq; lia).
      rewrite E1, E2, E3 in H. cbn [orb] in H. rewrite Bool.orb_false_r in H.
      unfold RoundTrip.wchar, is_space. destruct (N.ltb_spec c 128) as [Hx|_]; [lia|].
      rewrite (Hdisj c Hge H). unfold HASH, DQ.
      assert (E4 : N.eqb c 35 = false) by (apply N.eqb_neq; lia).
      assert (E5 : N.eqb c 34 = false) by (apply N.eqb_neq; lia).
      rewrite E4, E5. reflexivity.
  Qed.

  Lemma valid_wordok name : valid_name name = true -> wordok is_space_u name = true.
  Proof.
    intros H. pose proof (valid_name_chars _ _ _ H) as Hc. destruct name as [|c s]; [discriminate|].
    unfold wordok. rewrite forallb_forall in *. intros x Hx. apply namechar_wchar, Hc, Hx.
  Qed.

  (* ---- what the quoted syntax carries ---- *)
  Fixpoint ends_bsl (s : str) : bool :=
    match s with [] => false | [c] => N.eqb c BSL | _ :: t => ends_bsl t end.
  Lemma has_prefix1_app a x y : x <> [] -> has_prefix [a] (x ++ y) = has_prefix [a] x.
  Proof. destruct x as [|b x]; [congruence|]. intros _. cbn [app has_prefix]. destruct x, y; reflexivity. Qed.
  Lemma has_suffix_bsl s : has_suffix [BSL] s = ends_bsl s.
  Proof.
    unfold has_suffix. cbn [rev app]. induction s as [|c t IH]; [reflexivity|].
    destruct t as [|d t']; [cbn [rev app has_prefix ends_bsl]; rewrite Bool.andb_true_r; apply N.eqb_sym|].
    cbn [rev]. rewrite has_prefix1_app.
    - exact IH.
    - cbn [rev]. destruct (rev t'); discriminate.
  Qed.

  Lemma qok_of : forall s esc,
    (esc = true -> match s with [] => False | c :: _ => N.eqb c DQ = false end) ->
    ends_bsl s = false -> bs_before_dq s = false -> qok esc s = true.
  Proof.
    induction s as [|c t IH]; intros esc He Hb Hq.
    - destruct esc; [exfalso; apply He; reflexivity|reflexivity].
    - assert (Hbt : ends_bsl t = false) by (destruct t as [|d t']; [reflexivity|exact Hb]).
      assert (Hqt : bs_before_dq t = false).
      { destruct t as [|d t']; [reflexivity|]. cbn [bs_before_dq] in Hq. apply orb_false_iff in Hq. exact (proj2 Hq). }
      cbn [qok]. destruct esc.
      + rewrite (He eq_refl). cbn [negb andb]. apply IH; [discriminate|exact Hbt|exact Hqt].
      + destruct (N.eqb_spec c BSL) as [->|Hne].
        * apply IH; [|exact Hbt|exact Hqt]. intros _. destruct t as [|d t'].
          -- cbn in Hb. discriminate.
          -- cbn [bs_before_dq] in Hq. apply orb_false_iff in Hq. destruct Hq as [Hq _].
             rewrite N.eqb_refl in Hq. cbn [andb] in Hq. exact Hq.
        * apply IH; [discriminate|exact Hbt|exact Hqt].
  Qed.

  (* ---- the trees of the theorem ---- *)
  Definition rarg (a : str) : bool :=
    parg a && qok false a && negb (contains ENVP a).
  Fixpoint rt_ok (n : node) : bool :=
    let '(Node name args ch sn mc _) := n in
    negb sn && negb mc && valid_name name && negb (str_eqb name IMPORT) && forallb rarg args &&
    match ch with None => true | Some l => forallb rt_ok l end.

  Lemma expressible_arg_rarg a : expressible_arg a = true -> rarg a = true.
  Proof.
    unfold expressible_arg, rarg, parg. rewrite !andb_true_iff, !negb_true_iff.
    intros [[[[[H1 H2] H3] H4] H5] H6]. rewrite has_suffix_bsl in H3.
    assert (Hb : str_eqb a [BSL] = false).
    { destruct (str_eqb a [BSL]) eqn:E; [|reflexivity]. apply str_eqb_eq in E. subst a. cbn in H3. discriminate. }
    repeat split; try assumption. apply qok_of; [discriminate|exact H3|exact H4].
  Qed.
  (* the trees named by the property: accepted by the reader (names well formed, no declaration
     left) and expressible in the quoted syntax *)
  Lemma good_expressible_rt_ok : forall n,
    goodb is_letter_u is_digit_u n = true -> expressible n = true -> rt_ok n = true.
  Proof.
    induction n as [name args sn mc ln|name args l sn mc ln IHl] using node_ind2; intros G E;
      cbn [goodb expressible rt_ok] in *; rewrite !andb_true_iff, !negb_true_iff in *;
      destruct G as [[[G1 G2] G3] G4]; destruct E as [[[[E1 E2] E3] E4] E5].
    - repeat split; try assumption.
      rewrite forallb_forall in *. intros a Ha. apply expressible_arg_rarg, E4, Ha.
    - repeat split; try assumption.
      + rewrite forallb_forall in *. intros a Ha. apply expressible_arg_rarg, E4, Ha.
      + clear -IHl G4 E5. induction l as [|x t IHt]; [reflexivity|]. inversion IHl as [|? ? Hx Ht]; subst.
        cbn [forallb] in *. apply andb_true_iff in G4. apply andb_true_iff in E5.
        destruct G4 as [Gx Gt]. destruct E5 as [Ex Et]. rewrite (Hx Gx Ex), (IHt Ht Gt Et). reflexivity.
  Qed.

  (* ---- projections of rt_ok ---- *)
  Ltac split_ok H :=
    cbn [rt_ok] in H; rewrite !andb_true_iff, !negb_true_iff in H;
    destruct H as [[[[[?Hs ?Hm] ?Hv] ?Hi] ?Ha] ?Hc].
  Lemma rarg_all {P : str -> bool} args :
    (forall a, rarg a = true -> P a = true) -> forallb rarg args = true -> forallb P args = true.
  Proof. intros HP H. rewrite forallb_forall in *. intros a Ha. apply HP, H, Ha. Qed.
  Lemma sub_all {P Q : node -> bool} (l : list node) :
    Forall (fun n => P n = true -> Q n = true) l -> forallb P l = true -> forallb Q l = true.
  Proof.
    induction 1 as [|x t Hx _ IH]; [reflexivity|]. cbn [forallb]. intros H. apply andb_true_iff in H.
    destruct H as [A B]. rewrite (Hx A), (IH B). reflexivity.
  Qed.

  Lemma rt_ok_pok : forall n, rt_ok n = true -> pok n = true.
  Proof.
    induction n as [name args sn mc ln|name args l sn mc ln IHl] using node_ind2; intros H; split_ok H;
      cbn [RoundTripParse.pok]; rewrite Hs, Hm, Hv; cbn [negb andb];
      rewrite (rarg_all (P := parg) args) by (try assumption; unfold rarg; intros a Q; rewrite !andb_true_iff in Q; tauto);
      [reflexivity|]. exact (sub_all l IHl Hc).
  Qed.
  Lemma rt_ok_lexable : forall n, rt_ok n = true -> lexable is_space_u n = true.
  Proof.
    induction n as [name args sn mc ln|name args l sn mc ln IHl] using node_ind2; intros H; split_ok H;
      cbn [lexable]; rewrite (valid_wordok _ Hv); cbn [andb];
      rewrite (rarg_all (P := qok false) args) by (try assumption; unfold rarg; intros a Q; rewrite !andb_true_iff in Q; tauto);
      [reflexivity|]. exact (sub_all l IHl Hc).
  Qed.
  Lemma rt_ok_noimp : forall n, rt_ok n = true -> noimp n = true.
  Proof.
    induction n as [name args sn mc ln|name args l sn mc ln IHl] using node_ind2; intros H; split_ok H;
      cbn [noimp]; rewrite Hi; cbn [negb andb]; [reflexivity|]. exact (sub_all l IHl Hc).
  Qed.
  Lemma rt_ok_noenv : forall n, rt_ok n = true -> noenv n = true.
  Proof.
    induction n as [name args sn mc ln|name args l sn mc ln IHl] using node_ind2; intros H; split_ok H;
      cbn [noenv]; rewrite Hv; cbn [andb];
      rewrite (rarg_all (P := fun a => negb (contains ENVP a)) args) by (try assumption; unfold rarg; intros a Q; rewrite !andb_true_iff in Q; tauto);
      [reflexivity|]. exact (sub_all l IHl Hc).
  Qed.

  Lemma rt_ok_relab : forall n line, rt_ok (relab line n) = rt_ok n.
  Proof.
    induction n as [name args sn mc ln|name args l sn mc ln IHl] using node_ind2; intros line; [reflexivity|].
    rewrite relab_eq. cbn [rt_ok]. f_equal.
    generalize (line + args_nl args + 1). induction l as [|x t IHt]; intros z; [reflexivity|].
    inversion IHl as [|? ? Hx Ht]; subst. rewrite relabs_cons. cbn [forallb]. rewrite Hx, (IHt Ht). reflexivity.
  Qed.
  Lemma rt_ok_relabs l : forall ln, forallb rt_ok (relabs ln l) = forallb rt_ok l.
  Proof.
    induction l as [|x t IH]; intros ln; [reflexivity|]. rewrite relabs_cons. cbn [forallb].
    rewrite rt_ok_relab, IH. reflexivity.
  Qed.

  Lemma height_relab : forall n line, height (relab line n) = height n.
  Proof.
    induction n as [name args sn mc ln|name args l sn mc ln IHl] using node_ind2; intros line; [reflexivity|].
    rewrite relab_eq, !height_eq. f_equal.
    generalize (line + args_nl args + 1). induction l as [|x t IHt]; intros z; [reflexivity|].
    inversion IHl as [|? ? Hx Ht]; subst. rewrite relabs_cons, !heights_cons, Hx, (IHt Ht). reflexivity.
  Qed.
  Lemma heights_relabs l : forall ln, heights (relabs ln l) = heights l.
  Proof.
    induction l as [|x t IH]; intros ln; [reflexivity|]. rewrite relabs_cons, !heights_cons, height_relab, IH. reflexivity.
  Qed.
  Lemma height_dep : forall n, (height n <= Z.to_nat (dep n) + 1)%nat.
  Proof.
    induction n as [name args sn mc ln|name args l sn mc ln IHl] using node_ind2; rewrite height_eq, dep_eq; [lia|].
    assert (heights l <= Z.to_nat (deps l) + 1)%nat.
    { induction l as [|x t IHt]; [cbn; lia|]. inversion IHl; subst. rewrite heights_cons, deps_cons.
      pose proof (dep_nonneg x). pose proof (deps_nonneg t). specialize (IHt H2). lia. }
    pose proof (deps_nonneg l). lia.
  Qed.
  Lemma heights_deps l : (heights l <= Z.to_nat (deps l) + 1)%nat.
  Proof.
    induction l as [|x t IH]; [cbn; lia|]. rewrite heights_cons, deps_cons.
    pose proof (height_dep x). pose proof (dep_nonneg x). pose proof (deps_nonneg t). lia.
  Qed.

  (* equality up to line numbers *)
  Lemma list_str_eqb_refl (l : list str) : list_eqb str_eqb l l = true.
  Proof. induction l as [|a t IH]; [reflexivity|]. cbn. rewrite str_eqb_refl, IH. reflexivity. Qed.
  Lemma node_eqb_relab : forall n line, node_eqb n (relab line n) = true.
  Proof.
    induction n as [name args sn mc ln|name args l sn mc ln IHl] using node_ind2; intros line;
      rewrite relab_eq; cbn [node_eqb]; rewrite str_eqb_refl, list_str_eqb_refl, !Bool.eqb_reflx; cbn [andb];
      [reflexivity|].
    generalize (line + args_nl args + 1). induction l as [|x t IHt]; intros z; [reflexivity|].
    inversion IHl as [|? ? Hx Ht]; subst. rewrite relabs_cons. rewrite Hx. cbn [andb]. exact (IHt Ht _).
  Qed.
  Lemma nodes_eqb_relabs l : forall ln, list_eqb node_eqb l (relabs ln l) = true.
  Proof.
    induction l as [|x t IH]; intros ln; [reflexivity|]. rewrite relabs_cons. cbn [list_eqb].
    rewrite node_eqb_relab, IH. reflexivity.
  Qed.

  (* ---- fuel ---- *)
  Lemma bnode_toks : forall n line, (bnode n <= 2 * length (node_toks line n) + 1)%nat.
  Proof.
    induction n as [name args sn mc ln|name args l sn mc ln IHl] using node_ind2; intros line;
      rewrite bnode_eq, node_toks_eq; cbn [length]; rewrite app_length, arg_toks_length; [cbn [length]; lia|].
    cbn [length]. rewrite app_length. cbn [length].
    assert (forall z, bloop l <= 2 * length (nodes_toks z l) + 2)%nat.
    { induction l as [|x t IHt]; intros z; [cbn; lia|]. inversion IHl as [|? ? Hx Ht]; subst.
      rewrite bloop_cons, nodes_toks_cons, app_length. specialize (Hx z). specialize (IHt Ht (z + node_nl x)).
      pose proof (node_toks_len_pos z x). lia. }
    specialize (H (line + args_nl args + 1)). lia.
  Qed.
  Lemma bloop_toks l : forall z, (bloop l <= 2 * length (nodes_toks z l) + 2)%nat.
  Proof.
    induction l as [|x t IH]; intros z; [cbn; lia|].
    rewrite bloop_cons, nodes_toks_cons, app_length. pose proof (bnode_toks x z). specialize (IH (z + node_nl x)).
    pose proof (node_toks_len_pos z x). lia.
  Qed.

  (* ---- the lexer on a list of printed nodes ---- *)
  Lemma lex0_print_nodes l : forall ln rest,
    forallb (lexable is_space_u) l = true ->
    lex0 is_space_u (flat_map (print_node 0) l ++ rest) ln
    = nodes_toks ln l ++ lex0 is_space_u rest (ln + nodes_nl l).
  Proof.
    induction l as [|x t IH]; intros ln rest H.
    - cbn. rewrite Z.add_0_r. reflexivity.
    - cbn [forallb] in H. apply andb_true_iff in H. destruct H as [Hx Ht].
      cbn [flat_map]. rewrite <- app_assoc, lex0_print_node by exact Hx. rewrite IH by exact Ht.
      rewrite nodes_toks_cons, nodes_nl_cons, <- app_assoc, Z.add_assoc. reflexivity.
  Qed.

  (* ---- the theorem ---- *)
  Lemma all_tokens_print t :
    forallb rt_ok t = true -> all_tokens is_space_u (print_nodes t) = nodes_toks 1 t.
  Proof.
    intros H. unfold all_tokens.
    assert (Hl : forallb (lexable is_space_u) t = true).
    { rewrite forallb_forall in *. intros x Hx. apply rt_ok_lexable, H, Hx. }
    assert (E : match print_nodes t with c :: r => if N.eqb c 65279 then r else print_nodes t | [] => [] end = print_nodes t).
    { destruct t as [|x t']; [reflexivity|]. cbn [forallb] in H. apply andb_true_iff in H. destruct H as [Hx _].
      destruct x as [name args ch sn mc ln]. split_ok Hx.
      destruct name as [|c0 nm]; [discriminate|]. pose proof (valid_name_head _ _ _ _ Hv) as Hc0.
      unfold print_nodes. cbn [flat_map]. rewrite print_node_eq. cbn [repeat app].
      destruct (N.eqb_spec c0 65279) as [->|Hne]; [|reflexivity].
      exfalso. unfold RoundTripParse.namechar, is_letter, is_digit in Hc0. cbn in Hc0.
      destruct Hbom as [B1 B2]. rewrite B1, B2 in Hc0. discriminate. }
    rewrite E. fold (lex0 is_space_u (print_nodes t) 1).
    rewrite <- (app_nil_r (print_nodes t)). unfold print_nodes.
    rewrite lex0_print_nodes by exact Hl. unfold lex0. cbn [Model.lex]. apply app_nil_r.
  Qed.

  Lemma read_tree_S f inp d :
    read_tree (S f) inp d = read_tree_body is_space_u is_letter_u is_digit_u (expand_imports f) inp d.
  Proof. reflexivity. Qed.

  Theorem print_read_roundtrip t :
    forallb rt_ok t = true -> deps t <= 256 ->
    read is_space_u is_letter_u is_digit_u files env (print_nodes t) = POk (relabs 1 t)
    /\ list_eqb node_eqb t (relabs 1 t) = true.
  Proof.
    intros Hok Hd. split; [|apply nodes_eqb_relabs].
    unfold read. change 2000%nat with (S 1999). rewrite read_tree_S. unfold read_tree_body, ctx0, parse_fuel.
    cbn [toks]. rewrite (all_tokens_print t Hok).
    set (T := nodes_toks 1 t).
    replace (2 * length T + 600)%nat with (S (S (2 * length T + 598))) by lia.
    rewrite read_nodes_S. unfold read_nodes_body. cbn [nest set_nest toks cur snips macros].
    change (255 <? -1) with false. cbv iota. change (-1 + 1) with 0.
    unfold set_nest. cbn [toks cur nest snips macros].
    set (c0 := {| toks := T; cur := -1; nest := 0; snips := []; macros := [] |}).
    assert (HF : Forall (NodeSpec is_letter_u is_digit_u) t) by (apply Forall_forall; intros x _; apply node_rt).
    assert (Hp : forallb pok t = true) by (rewrite forallb_forall in *; intros x Hx; apply rt_ok_pok, Hok, Hx).
    destruct (nodes_loop_rt is_letter_u is_digit_u t HF (S (2 * length T + 598)) c0 1 [] false false Hp) as [c1 [E1 S1]].
    - exists [], []. split; [cbn [app]; rewrite app_nil_r; reflexivity|reflexivity].
    - cbn. lia.
    - cbn. lia.
    - cbn [nest c0]. lia.
    - reflexivity.
    - reflexivity.
    - discriminate.
    - unfold ntoks. cbn [toks cur c0]. fold T. lia.
    - pose proof (bloop_toks t 1). fold T in H. lia.
    - rewrite E1. cbn [app]. destruct S1 as [T1 [C1 [N1 [SN1 MC1]]]].
      rewrite N1. cbn [nest c0]. change (0 <? 0) with false. cbv iota.
      rewrite SN1. cbn [snips c0].
      rewrite expand_imports_id.
      + assert (Em : map (expand_env env) (relabs 1 t) = relabs 1 t).
        { assert (Hr : forallb rt_ok (relabs 1 t) = true) by (rewrite rt_ok_relabs; exact Hok).
          revert Hr. generalize (relabs 1 t). intros l Hr. induction l as [|x l IH]; [reflexivity|]. cbn [forallb] in Hr.
          apply andb_true_iff in Hr. destruct Hr as [Hx Hl]. cbn [map].
          rewrite (expand_env_id x (rt_ok_noenv x Hx)), (IH Hl). reflexivity. }
        rewrite Em. reflexivity.
      + cbn [noimp]. change (negb (str_eqb [] IMPORT)) with true. cbn [andb].
        assert (Hr : forallb rt_ok (relabs 1 t) = true) by (rewrite rt_ok_relabs; exact Hok).
        rewrite forallb_forall in *. intros x Hx. apply rt_ok_noimp, Hr, Hx.
      + rewrite height_eq, heights_relabs. pose proof (heights_deps t). pose proof (deps_nonneg t). lia.
  Qed.
End Top.
