(* Proofs about Cfg/Model.v (C20). *)
From Maddy Require Import Lib.Base Cfg.Model.
Local Open Scope Z_scope.

Ltac break_match :=
  repeat match goal with
         | |- context [match ?x with _ => _ end] =>
             lazymatch x with
             | context [match _ with _ => _ end] => fail
             | _ => destruct x eqn:?
             end
         end.

(* ---------- the reader never panics ---------- *)
Lemma expand_single_np m a : expand_single m a <> PPanic.
Proof.
  unfold expand_single. generalize (macro_matches (S (length a)) a) as names.
  assert (G : forall names acc, acc <> PPanic ->
    fold_left (fun acc name =>
               match acc with
               | POk a0 =>
                   match mlookup m name with
                   | Some (_ :: _ :: _) => PErr
                   | Some [v] => POk (str_replace a0 (DP ++ name ++ [RPAR]) v)
                   | Some [] => POk (str_replace a0 (DP ++ name ++ [RPAR]) [])
                   | None => POk (str_replace a0 (DP ++ name ++ [RPAR]) [])
                   end
               | e => e
               end) names acc <> PPanic).
  { induction names as [|n names IH]; simpl; intros acc H; auto.
    apply IH. destruct acc; try congruence. break_match; congruence. }
  intros names. apply G. congruence.
Qed.

Lemma expand_args_np m args : expand_args m args <> PPanic.
Proof.
  induction args as [|a t IH]; simpl; [congruence|].
  pose proof (expand_single_np m a).
  break_match; congruence.
Qed.

Lemma expand_macros_np m : forall n, expand_macros m n <> PPanic.
Proof.
  fix IH 1. intros [name args ch sn mc ln].
  simpl. pose proof (expand_args_np m args) as Ha.
  destruct (is_macro_ref name); [congruence|].
  destruct (expand_args m args) eqn:Ea; try congruence.
  destruct ch as [l|]; [|congruence].
  assert (G : (fix go (l0 : list node) : pres (list node) :=
                 match l0 with
                 | [] => POk []
                 | x :: t => match expand_macros m x with
                             | POk x' => match go t with POk t' => POk (x' :: t') | e => e end
                             | PErr => PErr | PPanic => PPanic | POutOfFuel => POutOfFuel
                             end
                 end) l <> PPanic).
  { induction l as [|x t IHl]; [congruence|].
    pose proof (IH x) as Hx. destruct (expand_macros m x) eqn:Ex; try congruence.
    match goal with |- context [match ?g with _ => _ end] => destruct g eqn:Eg end; congruence. }
  match goal with |- context [match ?g with _ => _ end] => destruct g eqn:Eg end; congruence.
Qed.

Section Parser.
  Variable is_letter_u is_digit_u : N -> bool.
  Notation read_nodes := (read_nodes is_letter_u is_digit_u).
  Notation nodes_loop := (nodes_loop is_letter_u is_digit_u).
  Notation read_node := (read_node is_letter_u is_digit_u).
  Notation args_loop := (args_loop is_letter_u is_digit_u).
  Notation args_done := (args_done is_letter_u is_digit_u).

  Lemma advance_np c rq : advance c rq <> Some PPanic.
  Proof.
    unfold advance. destruct rq.
    - destruct (next_line c) as [[|] c1]; [congruence|]. destruct (next c) as [[|] c2]; congruence.
    - destruct (next c) as [[|] c1]; congruence.
  Qed.

  Lemma parse_as_macro_np name args : parse_as_macro name args <> PPanic.
  Proof. unfold parse_as_macro. break_match; congruence. Qed.

  Lemma parser_np fuel :
    (forall c, read_nodes fuel c <> PPanic) /\
    (forall c rq res, nodes_loop fuel c rq res <> PPanic) /\
    (forall c, read_node fuel c <> PPanic) /\
    (forall c args ch cl, args_loop fuel c args ch cl <> PPanic) /\
    (forall c args ch, args_done fuel c args ch <> PPanic).
  Proof.
    induction fuel as [|f (IH1 & IH2 & IH3 & IH4 & IH5)].
    { repeat split; intros; cbn [Model.read_nodes Model.nodes_loop Model.read_node Model.args_loop Model.args_done]; congruence. }
    repeat split; intros.
    - change (read_nodes_body (nodes_loop f) c <> PPanic). unfold read_nodes_body.
      destruct (Z.ltb 255 (nest c)); [congruence|apply IH2].
    - change (nodes_loop_body (nodes_loop f) (read_node f) c rq res <> PPanic). unfold nodes_loop_body.
      pose proof (advance_np c rq) as Ha.
      destruct (advance c rq) as [[c1| | |]|]; try congruence.
      destruct (str_eqb (val c1) RBRACE); [break_match; congruence|].
      pose proof (IH3 c1) as H3. destruct (read_node f c1) as [[n c2]| | |]; try congruence.
      destruct n as [name args ch sn mc ln]. cbv zeta.
      set (c3 := if last_is args RBRACE then set_nest c2 (nest c2 - 1) else c2).
      set (args1 := if last_is args RBRACE then removelast args else args).
      destruct (last_is args RBRACE && (nest c3 <? 0))%bool; [congruence|].
      destruct mc.
      + destruct (negb (nest c3 =? 0)); [congruence|].
        pose proof (expand_macros_np (macros c3) (Node name args1 ch sn true ln)) as Hm.
        destruct (expand_macros (macros c3) (Node name args1 ch sn true ln)); try congruence; try apply IH2.
      + destruct sn.
        * destruct (negb (nest c3 =? 0)); [congruence|]. destruct args1; try congruence; try apply IH2.
        * pose proof (expand_macros_np (macros c3) (Node name args1 ch false false ln)) as Hm.
          destruct (expand_macros (macros c3) (Node name args1 ch false false ln)); try congruence.
          destruct (last_is args RBRACE); try congruence; try apply IH2.
    - change (read_node_body is_letter_u is_digit_u (args_loop f) c <> PPanic). unfold read_node_body.
      destruct (str_eqb (val c) LBRACE); [congruence|]. cbv zeta.
      pose proof (IH4 c [] None false) as H4.
      destruct (args_loop f c [] None false) as [[[args ch] c1]| | |]; try congruence.
      pose proof (parse_as_macro_np (if is_snippet_name (val c) then inner 1 (val c) else val c) args) as Hp.
      destruct (parse_as_macro (if is_snippet_name (val c) then inner 1 (val c) else val c) args) as [[[mn ma]|]| | |];
        try congruence.
      break_match; try congruence.
    - change (args_loop_body (args_loop f) (args_done f) (read_nodes f) c args ch cl <> PPanic).
      unfold args_loop_body. destruct (step_arg c cl) as [ok c1]. destruct ok; [|apply IH5].
      destruct (str_eqb (val c1) LBRACE); [|apply IH4].
      pose proof (IH1 c1) as H1. destruct (read_nodes f c1) as [[l c2]| | |]; try congruence; try apply IH5.
    - change (args_done_body (args_loop f) c args ch <> PPanic). unfold args_done_body.
      destruct (last_is args [BSL]); [apply IH4|congruence].
  Qed.

  (* ---------- imports ---------- *)
  Variable is_space_u : N -> bool.
  Variable files : str -> option (list N).
  Notation read_tree := (read_tree is_space_u is_letter_u is_digit_u files).
  Notation expand_imports := (expand_imports is_space_u is_letter_u is_digit_u files).

  Lemma imports_go_np expand readt depth :
    (forall s x, expand s x <> PPanic) -> (forall b, readt b <> PPanic) ->
    forall l s acc has, imports_go files expand readt depth l s acc has <> PPanic.
  Proof.
    intros He Hr. induction l as [|x t IH]; intros s acc has; simpl; [congruence|].
    pose proof (He s x) as Hx. destruct (expand s x) as [[x' s1]| | |]; try congruence.
    destruct (str_eqb (n_name x') IMPORT); [|apply IH].
    destruct (255 <? depth); [congruence|].
    destruct (n_args x') as [|a [|]]; try congruence.
    destruct (slookup s1 a); [apply IH|].
    destruct (match files a with Some b => Some b | None => files (a ++ DOTCONF) end) as [bytes|]; [|congruence].
    pose proof (Hr bytes) as Hb. destruct (readt bytes) as [[[nodes fs] ms]| | |]; try congruence; try apply IH.
  Qed.

  Lemma imports_np fuel :
    (forall inp d, read_tree fuel inp d <> PPanic) /\
    (forall s n d, expand_imports fuel s n d <> PPanic).
  Proof.
    induction fuel as [|f [IH1 IH2]].
    { split; intros; cbn [Model.read_tree Model.expand_imports]; congruence. }
    split; intros.
    - change (read_tree_body is_space_u is_letter_u is_digit_u (expand_imports f) inp d <> PPanic).
      unfold read_tree_body. cbv zeta.
      destruct (parser_np (parse_fuel (ctx0 is_space_u inp))) as (H1 & _).
      pose proof (H1 (ctx0 is_space_u inp)) as Hp.
      destruct (Model.read_nodes is_letter_u is_digit_u (parse_fuel (ctx0 is_space_u inp)) (ctx0 is_space_u inp)) as [[l c1]| | |];
        try congruence.
      destruct (0 <? nest c1); [congruence|].
      pose proof (IH2 (snips c1) (Node [] [] (Some l) false false 1) d) as He.
      destruct (expand_imports f (snips c1) (Node [] [] (Some l) false false 1) d) as [[[? ? [?|] ? ? ?] s']| | |];
        congruence.
    - change (expand_imports_body files (expand_imports f) (read_tree f) s n d <> PPanic).
      unfold expand_imports_body. destruct n as [name args ch sn mc ln]. destruct ch as [l|]; [|congruence].
      pose proof (imports_go_np (fun s x => expand_imports f s x (d + 1)) (fun b => read_tree f b (d + 1)) d
                    (fun s x => IH2 s x (d + 1)) (fun b => IH1 b (d + 1)) l s [] false) as Hg.
      destruct (imports_go files (fun s x => expand_imports f s x (d + 1)) (fun b => read_tree f b (d + 1)) d l s [] false)
        as [[[l' s'] has]| | |]; try congruence.
      destruct has; [apply IH2|congruence].
  Qed.

  Lemma read_np env inp :
    read is_space_u is_letter_u is_digit_u files env inp <> PPanic.
  Proof.
    unfold read. destruct (imports_np 2000) as [H _]. pose proof (H inp 0) as Hr.
    destruct (read_tree 2000 inp 0) as [[[l ?] ?]| | |]; congruence.
  Qed.
End Parser.

(* ---------- post-conditions of an accepted tree ---------- *)
Section Post.
  Variable is_letter_u is_digit_u : N -> bool.
  Notation valid_name := (valid_name is_letter_u is_digit_u).

  Fixpoint goodb (n : node) : bool :=
    let '(Node name _ ch sn mc _) := n in
    negb sn && negb mc && valid_name name &&
    match ch with None => true | Some l => forallb goodb l end.
  Definition chgood (ch : option (list node)) : bool :=
    match ch with None => true | Some l => forallb goodb l end.
  Definition snips_good (s : list (str * option (list node))) : bool := forallb (fun kv => chgood (snd kv)) s.

  Lemma expand_macros_good m : forall n n', expand_macros m n = POk n' -> goodb n = true -> goodb n' = true.
  Proof.
    fix IH 1. intros [name args ch sn mc ln] n'. simpl.
    destruct (is_macro_ref name); [discriminate|].
    destruct (expand_args m args) as [args'| | |]; try discriminate.
    destruct ch as [l|].
    - intros H G.
      assert (K : forall l l', (fix go (l0 : list node) : pres (list node) :=
                   match l0 with
                   | [] => POk []
                   | x :: t => match expand_macros m x with
                               | POk x' => match go t with POk t' => POk (x' :: t') | e => e end
                               | PErr => PErr | PPanic => PPanic | POutOfFuel => POutOfFuel
                               end
                   end) l = POk l' -> forallb goodb l = true -> forallb goodb l' = true).
      { clear -IH. induction l as [|x t IHl]; intros l' H G.
        - inversion H; reflexivity.
        - simpl in G. apply andb_true_iff in G as [Gx Gt].
          destruct (expand_macros m x) as [x'| | |] eqn:Ex; try discriminate.
          match type of H with context [match ?g with _ => _ end] => destruct g as [t'| | |] eqn:Eg end;
            try discriminate.
          inversion H; subst. simpl. rewrite (IH x x' Ex Gx), (IHl t' eq_refl Gt). reflexivity. }
      match type of H with context [match ?g with _ => _ end] => destruct g as [l'| | |] eqn:Eg end;
        try discriminate.
      inversion H; subst. simpl in *.
      apply andb_true_iff in G as [G1 G2]. rewrite G1. simpl. eapply K; eauto.
    - intros H G. inversion H; subst. simpl in *. exact G.
  Qed.

  Notation read_nodes := (read_nodes is_letter_u is_digit_u).
  Notation nodes_loop := (nodes_loop is_letter_u is_digit_u).
  Notation read_node := (read_node is_letter_u is_digit_u).
  Notation args_loop := (args_loop is_letter_u is_digit_u).
  Notation args_done := (args_done is_letter_u is_digit_u).

  Lemma forallb_app_single {A} (p : A -> bool) l x :
    forallb p l = true -> p x = true -> forallb p (l ++ [x]) = true.
  Proof. intros. rewrite forallb_app. simpl. rewrite H, H0. reflexivity. Qed.

  Lemma advance_snips c rq c1 : advance c rq = Some (POk c1) -> snips c1 = snips c.
  Proof.
    unfold advance, next_line, next, set_cur. destruct rq;
      repeat match goal with |- context [if ?x then _ else _] => destruct x end;
      intros H; inversion H; reflexivity.
  Qed.
  Lemma step_arg_snips c cl c1 ok : step_arg c cl = (ok, c1) -> snips c1 = snips c.
  Proof.
    unfold step_arg, next_arg, next_line, set_cur.
    repeat match goal with |- context [if ?x then _ else _] => destruct x end;
      intros H; inversion H; reflexivity.
  Qed.

  (* what read_node returns: children good; unless it is a macro or snippet declaration the
     name is a well-formed directive name *)
  Definition node_ok (n : node) : bool :=
    chgood (n_children n) && (n_macro n || n_snippet n || valid_name (n_name n)).

  Notation sg c := (snips_good (snips c) = true).
  Notation gl l := (forallb goodb l = true).

  Lemma read_nodes_body_good (NL : pctx -> bool -> list node -> R1) :
    (forall c rq res l c', NL c rq res = POk (l, c') -> sg c -> gl res -> gl l /\ sg c') ->
    forall c l c', read_nodes_body NL c = POk (l, c') -> sg c -> gl l /\ sg c'.
  Proof.
    intros HNL c l c' H Hs. unfold read_nodes_body in H.
    destruct (255 <? nest c); [discriminate|]. eapply HNL; eauto.
  Qed.

  Lemma nodes_loop_body_good (NL : pctx -> bool -> list node -> R1) (RN : pctx -> R2) :
    (forall c rq res l c', NL c rq res = POk (l, c') -> sg c -> gl res -> gl l /\ sg c') ->
    (forall c n c', RN c = POk (n, c') -> sg c -> node_ok n = true /\ sg c') ->
    forall c rq res l c', nodes_loop_body NL RN c rq res = POk (l, c') -> sg c -> gl res -> gl l /\ sg c'.
  Proof.
    intros HNL HRN c rq res l c' H Hs Hres. unfold nodes_loop_body in H.
    destruct (advance c rq) as [[c1| | |]|] eqn:Ea; try discriminate.
    2: { inversion H; subst; auto. }
    pose proof (advance_snips _ _ _ Ea) as Es.
    assert (Hs1 : sg c1) by (rewrite Es; exact Hs).
    destruct (str_eqb (val c1) RBRACE).
    { destruct (nest (set_nest c1 (nest c1 - 1)) <? 0); [discriminate|]. inversion H; subst. simpl. auto. }
    destruct (RN c1) as [[n c2]| | |] eqn:En; try discriminate.
    destruct (HRN _ _ _ En Hs1) as [Hn Hs2].
    destruct n as [name args ch sn mc ln]. cbv zeta in H.
    remember (if last_is args RBRACE then set_nest c2 (nest c2 - 1) else c2) as c3 eqn:Ec3.
    remember (if last_is args RBRACE then removelast args else args) as args1 eqn:Ea1.
    assert (Hs3 : sg c3) by (subst c3; destruct (last_is args RBRACE); simpl; exact Hs2).
    destruct (last_is args RBRACE && (nest c3 <? 0))%bool; [discriminate|].
    unfold node_ok in Hn. simpl in Hn. apply andb_true_iff in Hn as [Hch Hnm].
    destruct mc.
    - destruct (negb (nest c3 =? 0)); [discriminate|].
      destruct (expand_macros (macros c3) (Node name args1 ch sn true ln)); try discriminate.
      eapply HNL; eauto.
    - destruct sn.
      + destruct (negb (nest c3 =? 0)); [discriminate|]. destruct args1; [|discriminate].
        eapply HNL; eauto. simpl. rewrite Hch. exact Hs3.
      + simpl in Hnm.
        destruct (expand_macros (macros c3) (Node name args1 ch false false ln)) as [n2| | |] eqn:Em; try discriminate.
        assert (Hg : goodb n2 = true).
        { eapply expand_macros_good; eauto. simpl. unfold chgood in Hch. rewrite Hnm, Hch. reflexivity. }
        destruct (last_is args RBRACE).
        * inversion H; subst. split; [apply forallb_app_single; auto|exact Hs3].
        * eapply HNL; eauto. apply forallb_app_single; auto.
  Qed.

  Lemma read_node_body_good (AL : pctx -> list str -> option (list node) -> bool -> R3) :
    (forall c args ch cl args' ch' c', AL c args ch cl = POk (args', ch', c') -> sg c -> chgood ch = true ->
                                       chgood ch' = true /\ sg c') ->
    forall c n c', read_node_body is_letter_u is_digit_u AL c = POk (n, c') -> sg c -> node_ok n = true /\ sg c'.
  Proof.
    intros HAL c n c' H Hs. unfold read_node_body in H.
    destruct (str_eqb (val c) LBRACE); [discriminate|]. cbv zeta in H.
    destruct (AL c [] None false) as [[[args ch] c1]| | |] eqn:Eal; try discriminate.
    destruct (HAL _ _ _ _ _ _ _ Eal Hs eq_refl) as [Hch Hs1].
    destruct (parse_as_macro (if is_snippet_name (val c) then inner 1 (val c) else val c) args) as [[[mn ma]|]| | |];
      try discriminate.
    - inversion H; subst. unfold node_ok. simpl. rewrite Hch. auto.
    - destruct (is_snippet_name (val c)) eqn:Esn; simpl in H.
      + inversion H; subst. unfold node_ok. simpl. rewrite Hch. auto.
      + destruct (valid_name (val c)) eqn:Ev; simpl in H; [|discriminate].
        inversion H; subst. unfold node_ok. simpl. rewrite Hch, Ev. auto.
  Qed.

  Lemma args_loop_body_good (AL : pctx -> list str -> option (list node) -> bool -> R3)
        (AD : pctx -> list str -> option (list node) -> R3) (RNS : pctx -> R1) :
    (forall c args ch cl args' ch' c', AL c args ch cl = POk (args', ch', c') -> sg c -> chgood ch = true ->
                                       chgood ch' = true /\ sg c') ->
    (forall c args ch args' ch' c', AD c args ch = POk (args', ch', c') -> sg c -> chgood ch = true ->
                                    chgood ch' = true /\ sg c') ->
    (forall c l c', RNS c = POk (l, c') -> sg c -> gl l /\ sg c') ->
    forall c args ch cl args' ch' c', args_loop_body AL AD RNS c args ch cl = POk (args', ch', c') ->
                                      sg c -> chgood ch = true -> chgood ch' = true /\ sg c'.
  Proof.
    intros HAL HAD HRNS c args ch cl args' ch' c' H Hs Hch. unfold args_loop_body in H.
    destruct (step_arg c cl) as [ok c1] eqn:Est.
    pose proof (step_arg_snips _ _ _ _ Est) as Es.
    assert (Hs1 : sg c1) by (rewrite Es; exact Hs).
    destruct ok; [|eapply HAD; eauto].
    destruct (str_eqb (val c1) LBRACE); [|eapply HAL; eauto].
    destruct (RNS c1) as [[l c2]| | |] eqn:Ern; try discriminate.
    destruct (HRNS _ _ _ Ern Hs1) as [Hl Hs2]. eapply HAD; eauto.
  Qed.

  Lemma args_done_body_good (AL : pctx -> list str -> option (list node) -> bool -> R3) :
    (forall c args ch cl args' ch' c', AL c args ch cl = POk (args', ch', c') -> sg c -> chgood ch = true ->
                                       chgood ch' = true /\ sg c') ->
    forall c args ch args' ch' c', args_done_body AL c args ch = POk (args', ch', c') ->
                                   sg c -> chgood ch = true -> chgood ch' = true /\ sg c'.
  Proof.
    intros HAL c args ch args' ch' c' H Hs Hch. unfold args_done_body in H.
    destruct (last_is args [BSL]); [eapply HAL; eauto|]. inversion H; subst. auto.
  Qed.

  Lemma parser_good fuel :
    (forall c l c', read_nodes fuel c = POk (l, c') -> sg c -> gl l /\ sg c') /\
    (forall c rq res l c', nodes_loop fuel c rq res = POk (l, c') -> sg c -> gl res -> gl l /\ sg c') /\
    (forall c n c', read_node fuel c = POk (n, c') -> sg c -> node_ok n = true /\ sg c') /\
    (forall c args ch cl args' ch' c', args_loop fuel c args ch cl = POk (args', ch', c') ->
                    sg c -> chgood ch = true -> chgood ch' = true /\ sg c') /\
    (forall c args ch args' ch' c', args_done fuel c args ch = POk (args', ch', c') ->
                    sg c -> chgood ch = true -> chgood ch' = true /\ sg c').
  Proof.
    induction fuel as [|f (IH1 & IH2 & IH3 & IH4 & IH5)].
    { repeat split; intros; cbn [Model.read_nodes Model.nodes_loop Model.read_node Model.args_loop Model.args_done] in *;
        discriminate. }
    split; [|split; [|split; [|split]]].
    - intros c l c' H. change (read_nodes_body (nodes_loop f) c = POk (l, c')) in H.
      eapply read_nodes_body_good; eauto.
    - intros c rq res l c' H. change (nodes_loop_body (nodes_loop f) (read_node f) c rq res = POk (l, c')) in H.
      eapply nodes_loop_body_good; eauto.
    - intros c n c' H. change (read_node_body is_letter_u is_digit_u (args_loop f) c = POk (n, c')) in H.
      eapply read_node_body_good; eauto.
    - intros c args ch cl args' ch' c' H.
      change (args_loop_body (args_loop f) (args_done f) (read_nodes f) c args ch cl = POk (args', ch', c')) in H.
      eapply args_loop_body_good; eauto.
    - intros c args ch args' ch' c' H. change (args_done_body (args_loop f) c args ch = POk (args', ch', c')) in H.
      eapply args_done_body_good; eauto.
  Qed.
End Post.

(* ---------- post-conditions through import and environment expansion ---------- *)
Section PostImports.
  Variable is_space_u is_letter_u is_digit_u : N -> bool.
  Variable files : str -> option (list N).
  Notation valid_name := (valid_name is_letter_u is_digit_u).
  Notation goodb := (goodb is_letter_u is_digit_u).
  Notation chgood := (chgood is_letter_u is_digit_u).
  Notation snips_good := (snips_good is_letter_u is_digit_u).
  Notation read_tree := (read_tree is_space_u is_letter_u is_digit_u files).
  Notation expand_imports := (expand_imports is_space_u is_letter_u is_digit_u files).
  Notation gl l := (forallb goodb l = true).

  Lemma slookup_good s a sub : snips_good s = true -> slookup s a = Some sub -> chgood sub = true.
  Proof.
    unfold slookup. induction s as [|[k v] s IH]; simpl; [discriminate|].
    intros H. apply andb_true_iff in H as [Hv Hs]. destruct (str_eqb a k).
    - intros E; inversion E; subst. exact Hv.
    - apply IH, Hs.
  Qed.

  Lemma snips_good_app a b : snips_good a = true -> snips_good b = true -> snips_good (a ++ b) = true.
  Proof. unfold Lemmas.snips_good. intros. rewrite forallb_app, H, H0. reflexivity. Qed.

  (* what one expansion step guarantees *)
  Definition keeps (n n' : node) : Prop :=
    n_name n' = n_name n /\ n_snippet n' = n_snippet n /\ n_macro n' = n_macro n.

  Lemma goodb_keeps n n' : keeps n n' -> chgood (n_children n') = true -> goodb n = true -> goodb n' = true.
  Proof.
    destruct n as [a b c d e f], n' as [a' b' c' d' e' f']. unfold keeps. simpl.
    intros (-> & -> & ->) Hc H.
    apply andb_true_iff in H as [H _]. rewrite H. exact Hc.
  Qed.

  Lemma imports_go_good (expand : SN -> node -> RE) (readt : list N -> RT) depth :
    (forall s x x' s', expand s x = POk (x', s') -> snips_good s = true -> chgood (n_children x) = true ->
                       chgood (n_children x') = true /\ snips_good s' = true /\ keeps x x') ->
    (forall b l s m, readt b = POk (l, s, m) -> gl l /\ snips_good s = true) ->
    forall l s acc has l' s' has',
      imports_go files expand readt depth l s acc has = POk (l', s', has') ->
      gl l -> snips_good s = true -> gl acc -> gl l' /\ snips_good s' = true.
  Proof.
    intros He Hr. induction l as [|x t IH]; intros s acc has l' s' has' H Hl Hs Hacc; simpl in H.
    { inversion H; subst; auto. }
    simpl in Hl. apply andb_true_iff in Hl as [Hx Ht].
    destruct (expand s x) as [[x' s1]| | |] eqn:Ex; try discriminate.
    assert (Hcx : chgood (n_children x) = true).
    { destruct x as [a b c d e f]. simpl in *. apply andb_true_iff in Hx as [_ Hx]. exact Hx. }
    destruct (He _ _ _ _ Ex Hs Hcx) as (Hc' & Hs1 & Hk).
    assert (Hgx' : goodb x' = true) by (eapply goodb_keeps; eauto).
    destruct (str_eqb (n_name x') IMPORT).
    - destruct (255 <? depth); [discriminate|].
      destruct (n_args x') as [|a [|]]; try discriminate.
      destruct (slookup s1 a) as [sub|] eqn:El.
      + eapply IH; eauto. rewrite forallb_app, Hacc. simpl.
        pose proof (slookup_good _ _ _ Hs1 El) as Hsub. destruct sub; auto.
      + destruct (match files a with Some b => Some b | None => files (a ++ DOTCONF) end) as [bytes|]; [|discriminate].
        destruct (readt bytes) as [[[nodes fs] ms]| | |] eqn:Er; try discriminate.
        destruct (Hr _ _ _ _ Er) as [Hn Hfs].
        eapply IH; eauto.
        * apply snips_good_app; auto.
        * rewrite forallb_app, Hacc, Hn. reflexivity.
    - eapply IH; eauto. rewrite forallb_app, Hacc. simpl. rewrite Hgx'. reflexivity.
  Qed.

  Lemma imports_good fuel :
    (forall inp d l s m, read_tree fuel inp d = POk (l, s, m) -> gl l /\ snips_good s = true) /\
    (forall s n d n' s', expand_imports fuel s n d = POk (n', s') -> snips_good s = true ->
                         chgood (n_children n) = true ->
                         chgood (n_children n') = true /\ snips_good s' = true /\ keeps n n').
  Proof.
    induction fuel as [|f [IH1 IH2]].
    { split; intros; cbn [Model.read_tree Model.expand_imports] in *; discriminate. }
    split.
    - intros inp d l s m H.
      change (read_tree_body is_space_u is_letter_u is_digit_u (expand_imports f) inp d = POk (l, s, m)) in H.
      unfold read_tree_body in H. cbv zeta in H.
      destruct (Model.read_nodes is_letter_u is_digit_u (parse_fuel (ctx0 is_space_u inp)) (ctx0 is_space_u inp))
        as [[l0 c1]| | |] eqn:Ern; try discriminate.
      destruct (parser_good is_letter_u is_digit_u (parse_fuel (ctx0 is_space_u inp))) as (P1 & _).
      destruct (P1 _ _ _ Ern eq_refl) as [Hl0 Hs1].
      destruct (0 <? nest c1); [discriminate|].
      destruct (expand_imports f (snips c1) (Node [] [] (Some l0) false false 1) d) as [[n' s']| | |] eqn:Ee;
        try discriminate.
      destruct (IH2 _ _ _ _ _ Ee Hs1 Hl0) as (Hc & Hs' & _).
      destruct n' as [a b [l'|] e g h]; inversion H; subst; auto.
    - intros s n d n' s' H Hs Hc.
      change (expand_imports_body files (expand_imports f) (read_tree f) s n d = POk (n', s')) in H.
      unfold expand_imports_body in H. destruct n as [name args ch sn mc ln].
      destruct ch as [l|].
      2: { inversion H; subst. unfold keeps. auto. }
      destruct (imports_go files (fun s x => expand_imports f s x (d + 1)) (fun b => read_tree f b (d + 1)) d l s [] false)
        as [[[l' s1] has]| | |] eqn:Eg; try discriminate.
      destruct (imports_go_good (fun s x => expand_imports f s x (d + 1)) (fun b => read_tree f b (d + 1)) d
                  (fun s x x' s' E => IH2 s x (d + 1) x' s' E)
                  (fun b l s m E => IH1 b (d + 1) l s m E) _ _ _ _ _ _ _ Eg Hc Hs eq_refl) as [Hl' Hs1].
      destruct has.
      + destruct (IH2 _ _ _ _ _ H Hs1 Hl') as (Hc' & Hs' & Hk). repeat split; auto; apply Hk.
      + inversion H; subst. unfold keeps. simpl. auto.
  Qed.

  (* environment expansion does not touch well-formed names *)
  Variable env : list (str * str).

  Lemma valid_name_no_brace s : valid_name s = true -> forallb (fun c => negb (N.eqb c 123)) s = true.
  Proof.
    unfold Model.valid_name. destruct s as [|c0 t]; [discriminate|].
    intros H. apply andb_true_iff in H as [_ H].
    revert H. generalize (c0 :: t). intros l H. rewrite forallb_forall in *. intros c Hin.
    specialize (H c Hin). destruct (N.eqb c 123) eqn:E; [|reflexivity].
    apply N.eqb_eq in E; subst. vm_compute in H. discriminate.
  Qed.

  Lemma find_none_all {A} (f : A -> bool) l : (forall x, f x = false) -> find f l = None.
  Proof. intros H. induction l as [|x l IH]; [reflexivity|]. cbn [find]. rewrite H. exact IH. Qed.
  Lemma has_prefix_head_ne a p c t : a <> c -> has_prefix (a :: p) (c :: t) = false.
  Proof. intros H. cbn [has_prefix]. destruct (N.eqb a c) eqn:E; [apply N.eqb_eq in E; tauto|reflexivity]. Qed.

  Lemma env_replace_id fuel s :
    forallb (fun c => negb (N.eqb c 123)) s = true -> env_replace env fuel s = s.
  Proof.
    revert s. induction fuel as [|f IH]; intros s H; [reflexivity|].
    destruct s as [|c t]; [reflexivity|]. simpl in H. apply andb_true_iff in H as [Hc Ht].
    cbn [env_replace].
    assert (F : find (fun kv => has_prefix (ENVP ++ fst kv ++ [RB]) (c :: t)) env = None).
    { apply find_none_all. intros kv.
      change (ENVP ++ fst kv ++ [RB]) with (123%N :: ([101;110;118;58]%N ++ fst kv ++ [RB])).
      apply has_prefix_head_ne. intros E; subst c; discriminate. }
    rewrite F, IH by exact Ht. reflexivity.
  Qed.

  Lemma remove_unexpanded_id fuel s :
    forallb (fun c => negb (N.eqb c 123)) s = true -> remove_unexpanded fuel s = s.
  Proof.
    revert s. induction fuel as [|f IH]; intros s H; [reflexivity|].
    destruct s as [|c t]; [reflexivity|]. simpl in H. apply andb_true_iff in H as [Hc Ht].
    cbn [remove_unexpanded].
    assert (has_prefix ENVP (c :: t) = false) as ->.
    { change ENVP with (123%N :: [101;110;118;58]%N). apply has_prefix_head_ne. intros E; subst c; discriminate. }
    rewrite IH by exact Ht. reflexivity.
  Qed.

  Lemma env_str_valid s : valid_name s = true -> env_str env s = s.
  Proof.
    intros H. apply valid_name_no_brace in H. unfold env_str.
    rewrite env_replace_id by exact H. apply remove_unexpanded_id, H.
  Qed.

  Lemma expand_env_good : forall n, goodb n = true -> goodb (expand_env env n) = true.
  Proof.
    fix IH 1. intros [name args ch sn mc ln] H. simpl in *.
    apply andb_true_iff in H as [H Hc]. apply andb_true_iff in H as [H Hv].
    rewrite (env_str_valid _ Hv), H, Hv. simpl.
    destruct ch as [l|]; [|reflexivity].
    induction l as [|x t IHl]; [reflexivity|]. simpl in *.
    apply andb_true_iff in Hc as [Hx Ht]. rewrite (IH x Hx), (IHl Ht). reflexivity.
  Qed.

  (* every tree that parser.Read accepts: no macro or snippet declaration left, every directive
     name well-formed - at every depth *)
  Lemma read_good inp l :
    read is_space_u is_letter_u is_digit_u files env inp = POk l -> gl l.
  Proof.
    unfold read. destruct (read_tree 2000 inp 0) as [[[l0 s] m]| | |] eqn:E; try discriminate.
    intros H; inversion H; subst. destruct (imports_good 2000) as [P _].
    destruct (P _ _ _ _ _ E) as [Hl _].
    clear E H P. induction l0 as [|x t IH]; [reflexivity|]. simpl in *.
    apply andb_true_iff in Hl as [Hx Ht]. rewrite (expand_env_good x Hx), (IH Ht). reflexivity.
  Qed.
End PostImports.
