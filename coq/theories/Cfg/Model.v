(* C20: executable model of the configuration reader
     framework/config/lexer/{lexer,dispenser}.go
     framework/cfgparser/{parse,imports,env}.go
   over rune lists (the harness decodes bytes exactly as bufio.ReadRune does: an invalid byte is
   U+FFFD).  unicode.IsSpace / IsLetter / IsDigit outside ASCII are Section variables.
   Definitions only. *)
From Maddy Require Export Lib.Base.
Local Open Scope Z_scope.

Definition NL : N := 10%N.
Definition CR : N := 13%N.
Definition DQ : N := 34%N.
Definition BSL : N := 92%N.
Definition HASH : N := 35%N.
Definition LBRACE : str := [123%N].
Definition RBRACE : str := [125%N].
Definition DOLLAR : N := 36%N.
Definition LPAR : N := 40%N.
Definition RPAR : N := 41%N.

Record token := { t_line : Z; t_text : str }.

Inductive node :=
| Node (name : str) (args : list str) (children : option (list node)) (snippet macro : bool) (line : Z).
Definition n_name (n : node) := let '(Node x _ _ _ _ _) := n in x.
Definition n_args (n : node) := let '(Node _ x _ _ _ _) := n in x.
Definition n_children (n : node) := let '(Node _ _ x _ _ _) := n in x.
Definition n_snippet (n : node) := let '(Node _ _ _ x _ _) := n in x.
Definition n_macro (n : node) := let '(Node _ _ _ _ x _) := n in x.
Definition n_line (n : node) := let '(Node _ _ _ _ _ x) := n in x.

Inductive pres (A : Type) := POk (a : A) | PErr | PPanic | POutOfFuel.
Arguments POk {A}. Arguments PErr {A}. Arguments PPanic {A}. Arguments POutOfFuel {A}.

(* ---------- small string library ---------- *)
Fixpoint has_prefix (p s : str) : bool :=
  match p, s with
  | [], _ => true
  | a :: p', b :: s' => N.eqb a b && has_prefix p' s'
  | _, [] => false
  end.
Definition has_suffix (p s : str) : bool := has_prefix (rev p) (rev s).
Fixpoint contains (p s : str) : bool :=
  has_prefix p s || match s with [] => false | _ :: s' => contains p s' end.
Fixpoint count_nl (s : str) : Z :=
  match s with [] => 0 | c :: t => (if N.eqb c NL then 1 else 0) + count_nl t end.
Fixpoint drop (n : nat) (s : str) : str :=
  match n, s with O, _ => s | S k, [] => [] | S k, _ :: t => drop k t end.
(* strings.Replace(s, old, new, -1) for non-empty old *)
Fixpoint replace_all (fuel : nat) (s old new : str) : str :=
  match fuel with
  | O => s
  | S f =>
      match s with
      | [] => []
      | c :: t => if has_prefix old s then new ++ replace_all f (drop (length old) s) old new
                  else c :: replace_all f t old new
      end
  end.
Definition str_replace (s old new : str) : str := replace_all (S (length s)) s old new.

(* ---------- lexer ---------- *)
Section Unicode.
  Variable is_space_u is_letter_u is_digit_u : N -> bool.   (* code points >= 128 *)

  Definition is_space (c : N) : bool :=
    if N.ltb c 128 then (N.eqb c 9 || N.eqb c 10 || N.eqb c 11 || N.eqb c 12 || N.eqb c 13 || N.eqb c 32)%bool
    else is_space_u c.
  Definition is_digit (c : N) : bool :=
    if N.ltb c 128 then (N.leb 48 c && N.leb c 57)%bool else is_digit_u c.
  Definition is_letter (c : N) : bool :=
    if N.ltb c 128 then ((N.leb 65 c && N.leb c 90) || (N.leb 97 c && N.leb c 122))%bool else is_letter_u c.

  Definition mk_tok (line : Z) (rval : str) : token := {| t_line := line; t_text := rev rval |}.

  (* lexer.next iterated; rval is the token text so far, reversed; started = the token was opened
     (needed for the empty quoted token) *)
  Fixpoint lex (inp : list N) (rval : str) (comment quoted escaped : bool) (line tokline : Z)
    : list token :=
    match inp with
    | [] => match rval with [] => [] | _ => [mk_tok tokline rval] end
    | ch :: rest =>
        if quoted then
          if (negb escaped && N.eqb ch BSL)%bool then lex rest rval comment true true line tokline
          else if (negb escaped && N.eqb ch DQ)%bool then
                 mk_tok tokline rval :: lex rest [] false false false line tokline
               else
                 let line' := if N.eqb ch NL then line + 1 else line in
                 let rval' := if (escaped && negb (N.eqb ch DQ))%bool then ch :: BSL :: rval else ch :: rval in
                 lex rest rval' comment true false line' tokline
        else if is_space ch then
               if N.eqb ch CR then lex rest rval comment false false line tokline
               else
                 let line' := if N.eqb ch NL then line + 1 else line in
                 let comment' := if N.eqb ch NL then false else comment in
                 match rval with
                 | [] => lex rest [] comment' false false line' tokline
                 | _ => mk_tok tokline rval :: lex rest [] false false false line' tokline
                 end
             else
               let comment' := (comment || N.eqb ch HASH)%bool in
               if comment' then lex rest rval true false false line tokline
               else match rval with
                    | [] => if N.eqb ch DQ then lex rest [] false true false line line
                            else lex rest [ch] false false false line line
                    | _ => lex rest (ch :: rval) false false false line tokline
                    end
    end.

  (* lexer.load: a leading byte-order mark is skipped *)
  Definition all_tokens (inp : list N) : list token :=
    let inp' := match inp with c :: t => if N.eqb c 65279 then t else inp | [] => [] end in
    lex inp' [] false false false 1 0.

  (* ---------- dispenser ---------- *)
  Record pctx := { toks : list token; cur : Z; nest : Z;
                   snips : list (str * option (list node)); macros : list (str * list str) }.

  Definition tok_at (c : pctx) (i : Z) : option token :=
    if Z.ltb i 0 then None else nth_error (toks c) (Z.to_nat i).
  Definition ntoks (c : pctx) : Z := Z.of_nat (length (toks c)).
  Definition val (c : pctx) : str := match tok_at c (cur c) with Some t => t_text t | None => [] end.
  Definition line (c : pctx) : Z := match tok_at c (cur c) with Some t => t_line t | None => 0 end.
  Definition set_cur (c : pctx) (i : Z) : pctx :=
    {| toks := toks c; cur := i; nest := nest c; snips := snips c; macros := macros c |}.
  Definition set_nest (c : pctx) (i : Z) : pctx :=
    {| toks := toks c; cur := cur c; nest := i; snips := snips c; macros := macros c |}.

  Definition next (c : pctx) : bool * pctx :=
    if Z.ltb (cur c) (ntoks c - 1) then (true, set_cur c (cur c + 1)) else (false, c).
  Definition same_line_rel (c : pctx) (rel : Z -> Z -> bool) : bool :=
    match tok_at c (cur c), tok_at c (cur c + 1) with
    | Some a, Some b => rel (t_line a + count_nl (t_text a)) (t_line b)
    | _, _ => false
    end.
  Definition next_arg (c : pctx) : bool * pctx :=
    if Z.ltb (cur c) 0 then (true, set_cur c (cur c + 1))
    else if Z.leb (ntoks c) (cur c) then (false, c)
    else if (Z.ltb (cur c) (ntoks c - 1) && same_line_rel c Z.eqb)%bool then (true, set_cur c (cur c + 1))
    else (false, c).
  Definition next_line (c : pctx) : bool * pctx :=
    if Z.ltb (cur c) 0 then (true, set_cur c (cur c + 1))
    else if Z.leb (ntoks c) (cur c) then (false, c)
    else if (Z.ltb (cur c) (ntoks c - 1) && same_line_rel c Z.ltb)%bool then (true, set_cur c (cur c + 1))
    else (false, c).

  (* ---------- macros ---------- *)
  Definition mlookup (m : list (str * list str)) (k : str) : option (list str) := alookup str_eqb k m.

  Definition DP : str := [DOLLAR; LPAR].       (* "$(" *)
  Definition is_macro_ref (a : str) : bool := (has_prefix DP a && has_suffix [RPAR] a)%bool.
  Definition inner (pre : nat) (a : str) : str := rev (drop 1 (rev (drop pre a))).   (* a[pre:len-1] *)

  (* regexp \$\(([^\$]+)\) : FindAllStringSubmatch, submatch 1.  run = maximal run without '$'
     after "$("; the match ends at the last ')' of the run that leaves a non-empty name *)
  Fixpoint take_run (s : str) : str :=
    match s with [] => [] | c :: t => if N.eqb c DOLLAR then [] else c :: take_run t end.
  (* index (in the run) of the last ')' at index >= 1 *)
  Fixpoint last_rpar (run : str) (i : nat) (best : option nat) : option nat :=
    match run with
    | [] => best
    | c :: t => last_rpar t (S i) (if (N.eqb c RPAR && negb (Nat.eqb i 0))%bool then Some i else best)
    end.
  Fixpoint macro_matches (fuel : nat) (s : str) : list str :=
    match fuel with
    | O => []
    | S f =>
        match s with
        | [] => []
        | _ :: t =>
            if has_prefix DP s then
              let run := take_run (drop 2 s) in
              match last_rpar run 0 None with
              | Some j => firstn j run :: macro_matches f (drop (2 + j + 1) s)
              | None => macro_matches f t
              end
            else macro_matches f t
        end
    end.

  Definition expand_single (m : list (str * list str)) (arg : str) : pres str :=
    let names := macro_matches (S (length arg)) arg in
    fold_left (fun acc name =>
                 match acc with
                 | POk a =>
                     match mlookup m name with
                     | Some (_ :: _ :: _) => PErr
                     | Some [v] => POk (str_replace a (DP ++ name ++ [RPAR]) v)
                     | Some [] => POk (str_replace a (DP ++ name ++ [RPAR]) [])     (* after the fix *)
                     | None => POk (str_replace a (DP ++ name ++ [RPAR]) [])
                     end
                 | e => e
                 end) names (POk arg).

  Fixpoint expand_args (m : list (str * list str)) (args : list str) : pres (list str) :=
    match args with
    | [] => POk []
    | a :: t =>
        if negb (is_macro_ref a) then
          let a' := if (contains DP a && contains [RPAR] a)%bool then expand_single m a else POk a in
          match a' with
          | POk x => match expand_args m t with POk r => POk (x :: r) | e => e end
          | PErr => PErr | PPanic => PPanic | POutOfFuel => POutOfFuel
          end
        else
          match expand_args m t with
          | POk r => POk (match mlookup m (inner 2 a) with Some rep => rep ++ r | None => r end)
          | e => e
          end
    end.

  Fixpoint expand_macros (m : list (str * list str)) (n : node) : pres node :=
    let '(Node name args ch sn mc ln) := n in
    if is_macro_ref name then PErr
    else match expand_args m args with
         | POk args' =>
             match ch with
             | None => POk (Node name args' None sn mc ln)
             | Some l =>
                 let r := (fix go (l : list node) : pres (list node) :=
                             match l with
                             | [] => POk []
                             | x :: t => match expand_macros m x with
                                         | POk x' => match go t with POk t' => POk (x' :: t') | e => e end
                                         | PErr => PErr | PPanic => PPanic | POutOfFuel => POutOfFuel
                                         end
                             end) l in
                 match r with
                 | POk l' => POk (Node name args' (Some l') sn mc ln)
                 | PErr => PErr | PPanic => PPanic | POutOfFuel => POutOfFuel
                 end
             end
         | PErr => PErr | PPanic => PPanic | POutOfFuel => POutOfFuel
         end.

  (* ---------- parser ---------- *)
  Definition allowed_punct (c : N) : bool := (N.eqb c 46 || N.eqb c 45 || N.eqb c 95)%bool.
  Definition valid_name (s : str) : bool :=
    match s with
    | [] => false
    | c :: _ => negb (is_digit c) && forallb (fun ch => is_letter ch || is_digit ch || allowed_punct ch)%bool s
    end.

  Definition is_snippet_name (s : str) : bool := (has_prefix [LPAR] s && has_suffix [RPAR] s)%bool.

  Definition last_is (args : list str) (x : str) : bool :=
    match rev args with a :: _ => str_eqb a x | [] => false end.

  (* parseAsMacro: None = not a macro declaration *)
  Definition parse_as_macro (name : str) (args : list str) : pres (option (str * list str)) :=
    if negb (has_prefix DP name) then POk None
    else if negb (has_suffix [RPAR] name) then PErr
    else match args with
         | a0 :: (_ :: _) as rest => if str_eqb a0 [61%N] then POk (Some (inner 2 name, rest)) else PErr
         | _ => PErr
         end.

  Definition set_maps (c : pctx) (s : list (str * option (list node))) (m : list (str * list str)) : pctx :=
    {| toks := toks c; cur := cur c; nest := nest c; snips := s; macros := m |}.

  (* readNodes / readNode.  Each Go function (and each of its loops) is a body parameterised by
     the functions it calls; the mutual fixpoint below ties them with one unit of fuel per loop
     iteration or nested call. *)
  Definition R1 := pres (list node * pctx).
  Definition R2 := pres (node * pctx).
  Definition R3 := pres (list str * option (list node) * pctx).

  Definition read_nodes_body (nodes_loop : pctx -> bool -> list node -> R1) (c : pctx) : R1 :=
    if Z.ltb 255 (nest c) then PErr
    else nodes_loop (set_nest c (nest c + 1)) false [].

  (* how the loop of readNodes moves to the next directive: None = no more tokens *)
  Definition advance (c : pctx) (require_nl : bool) : option (pres pctx) :=
    if require_nl then
      let '(ok, c1) := next_line c in
      if ok then Some (POk c1)
      else let '(ok2, c2) := next c in
           if ok2 then Some PErr else None
    else let '(ok, c1) := next c in if ok then Some (POk c1) else None.

  Definition nodes_loop_body (nodes_loop : pctx -> bool -> list node -> R1) (read_node : pctx -> R2)
             (c : pctx) (require_nl : bool) (res : list node) : R1 :=
    match advance c require_nl with
    | None => POk (res, c)
    | Some PErr => PErr
    | Some PPanic => PPanic
    | Some POutOfFuel => POutOfFuel
    | Some (POk c1) =>
        if str_eqb (val c1) RBRACE then
          let c2 := set_nest c1 (nest c1 - 1) in
          if Z.ltb (nest c2) 0 then PErr else POk (res, c2)
        else
          match read_node c1 with
          | POk (n, c2) =>
              let '(Node name args ch sn mc ln) := n in
              let stop := last_is args RBRACE in
              let c3 := if stop then set_nest c2 (nest c2 - 1) else c2 in
              if (stop && Z.ltb (nest c3) 0)%bool then PErr
              else
                let args1 := if stop then removelast args else args in
                let n1 := Node name args1 ch sn mc ln in
                if mc then
                  if negb (Z.eqb (nest c3) 0) then PErr
                  else match expand_macros (macros c3) n1 with
                       | POk n2 => nodes_loop (set_maps c3 (snips c3) ((n_name n2, n_args n2) :: macros c3)) true res
                       | PErr => PErr | PPanic => PPanic | POutOfFuel => POutOfFuel
                       end
                else if sn then
                  if negb (Z.eqb (nest c3) 0) then PErr
                  else match args1 with
                       | _ :: _ => PErr
                       | [] => nodes_loop (set_maps c3 ((name, ch) :: snips c3) (macros c3)) true res
                       end
                else match expand_macros (macros c3) n1 with
                     | POk n2 => if stop then POk (res ++ [n2], c3) else nodes_loop c3 true (res ++ [n2])
                     | PErr => PErr | PPanic => PPanic | POutOfFuel => POutOfFuel
                     end
          | PErr => PErr | PPanic => PPanic | POutOfFuel => POutOfFuel
          end
    end.

  Definition read_node_body (args_loop : pctx -> list str -> option (list node) -> bool -> R3)
             (c : pctx) : R2 :=
    if str_eqb (val c) LBRACE then PErr
    else
      let ln := line c in
      let name0 := val c in
      let sn := is_snippet_name name0 in
      let name := if sn then inner 1 name0 else name0 in
      match args_loop c [] None false with
      | POk (args, ch, c1) =>
          match parse_as_macro name args with
          | POk (Some (mname, margs)) => POk (Node mname margs ch sn true ln, c1)
          | POk None =>
              if (negb sn && negb (valid_name name))%bool then PErr
              else POk (Node name args ch sn false ln, c1)
          | PErr => PErr | PPanic => PPanic | POutOfFuel => POutOfFuel
          end
      | PErr => PErr | PPanic => PPanic | POutOfFuel => POutOfFuel
      end.

  (* the argument loops of readNode: inner `for ctx.NextArg() || (continueOnLF && ctx.NextLine())`
     and the outer loop that handles a trailing backslash argument *)
  Definition step_arg (c : pctx) (cont_lf : bool) : bool * pctx :=
    let '(ok, c1) := next_arg c in
    if ok then (true, c1) else if cont_lf then next_line c else (false, c).

  Definition args_loop_body (args_loop : pctx -> list str -> option (list node) -> bool -> R3)
             (args_done : pctx -> list str -> option (list node) -> R3)
             (read_nodes : pctx -> R1)
             (c : pctx) (args : list str) (ch : option (list node)) (cont_lf : bool) : R3 :=
    let '(ok, c1) := step_arg c cont_lf in
    if ok then
      if str_eqb (val c1) LBRACE then
        match read_nodes c1 with
        | POk (l, c2) => args_done c2 args (Some l)
        | PErr => PErr | PPanic => PPanic | POutOfFuel => POutOfFuel
        end
      else args_loop c1 (args ++ [val c1]) ch false
    else args_done c args ch.

  Definition args_done_body (args_loop : pctx -> list str -> option (list node) -> bool -> R3)
             (c : pctx) (args : list str) (ch : option (list node)) : R3 :=
    if last_is args [BSL] then args_loop c (removelast args) ch true
    else POk (args, ch, c).

  Fixpoint read_nodes (fuel : nat) (c : pctx) : R1 :=
    match fuel with
    | O => POutOfFuel
    | S f => read_nodes_body (nodes_loop f) c
    end
  with nodes_loop (fuel : nat) (c : pctx) (require_nl : bool) (res : list node) : R1 :=
    match fuel with
    | O => POutOfFuel
    | S f => nodes_loop_body (nodes_loop f) (read_node f) c require_nl res
    end
  with read_node (fuel : nat) (c : pctx) : R2 :=
    match fuel with
    | O => POutOfFuel
    | S f => read_node_body (args_loop f) c
    end
  with args_loop (fuel : nat) (c : pctx) (args : list str) (ch : option (list node)) (cont_lf : bool) : R3 :=
    match fuel with
    | O => POutOfFuel
    | S f => args_loop_body (args_loop f) (args_done f) (read_nodes f) c args ch cont_lf
    end
  with args_done (fuel : nat) (c : pctx) (args : list str) (ch : option (list node)) : R3 :=
    match fuel with
    | O => POutOfFuel
    | S f => args_done_body (args_loop f) c args ch
    end.

  (* ---------- imports ---------- *)
  Variable files : str -> option (list N).    (* import name -> file contents (flat directory) *)
  Definition IMPORT : str := [105;109;112;111;114;116]%N.
  Definition DOTCONF : str := [46;99;111;110;102]%N.

  Definition ctx0 (inp : list N) : pctx :=
    {| toks := all_tokens inp; cur := -1; nest := -1; snips := []; macros := [] |}.
  Definition parse_fuel (c : pctx) : nat := 2 * length (toks c) + 600.

  Definition slookup (s : list (str * option (list node))) (k : str) : option (option (list node)) :=
    alookup str_eqb k s.

  Definition SN := list (str * option (list node)).
  Definition RT := pres (list node * SN * list (str * list str)).
  Definition RE := pres (node * SN).

  (* the loop over the children of one node in expandImports *)
  Fixpoint imports_go (expand : SN -> node -> RE) (readt : list N -> RT) (depth : Z)
           (l : list node) (s : SN) (acc : list node) (has : bool) : pres (list node * SN * bool) :=
    match l with
    | [] => POk (acc, s, has)
    | x :: t =>
        match expand s x with
        | POk (x', s1) =>
            if str_eqb (n_name x') IMPORT then
              if Z.ltb 255 depth then PErr
              else match n_args x' with
                   | [a] =>
                       match slookup s1 a with
                       | Some sub => imports_go expand readt depth t s1 (acc ++ match sub with Some q => q | None => [] end) true
                       | None =>
                           let src := match files a with Some b => Some b | None => files (a ++ DOTCONF) end in
                           match src with
                           | None => PErr
                           | Some bytes =>
                               match readt bytes with
                               | POk (nodes, fs, _) => imports_go expand readt depth t (fs ++ s1) (acc ++ nodes) true
                               | PErr => PErr | PPanic => PPanic | POutOfFuel => POutOfFuel
                               end
                           end
                       end
                   | _ => PErr
                   end
            else imports_go expand readt depth t s1 (acc ++ [x']) has
        | PErr => PErr | PPanic => PPanic | POutOfFuel => POutOfFuel
        end
    end.

  Definition read_tree_body (expand : SN -> node -> Z -> RE) (inp : list N) (depth : Z) : RT :=
    let c := ctx0 inp in
    match read_nodes (parse_fuel c) c with
    | POk (l, c1) =>
        if Z.ltb 0 (nest c1) then PErr
        else match expand (snips c1) (Node [] [] (Some l) false false 1) depth with
             | POk (Node _ _ (Some l') _ _ _, s') => POk (l', s', macros c1)
             | POk (Node _ _ None _ _ _, s') => POk ([], s', macros c1)
             | PErr => PErr | PPanic => PPanic | POutOfFuel => POutOfFuel
             end
    | PErr => PErr | PPanic => PPanic | POutOfFuel => POutOfFuel
    end.

  Definition expand_imports_body (expand : SN -> node -> Z -> RE) (readt : list N -> Z -> RT)
             (s : SN) (n : node) (depth : Z) : RE :=
    let '(Node name args ch sn mc ln) := n in
    match ch with
    | None => POk (n, s)
    | Some l =>
        match imports_go (fun s x => expand s x (depth + 1)) (fun b => readt b (depth + 1)) depth l s [] false with
        | POk (l', s', has) =>
            let n' := Node name args (Some l') sn mc ln in
            if has then expand s' n' (depth + 1) else POk (n', s')
        | PErr => PErr | PPanic => PPanic | POutOfFuel => POutOfFuel
        end
    end.

  Fixpoint read_tree (fuel : nat) (inp : list N) (depth : Z) : RT :=
    match fuel with
    | O => POutOfFuel
    | S f => read_tree_body (expand_imports f) inp depth
    end
  with expand_imports (fuel : nat) (s : SN) (n : node) (depth : Z) : RE :=
    match fuel with
    | O => POutOfFuel
    | S f => expand_imports_body (expand_imports f) (read_tree f) s n depth
    end.

  (* ---------- environment ---------- *)
  Variable env : list (str * str).      (* variable name -> value *)
  Definition ENVP : str := [123;101;110;118;58]%N.       (* "{env:" *)
  Definition RB : N := 125%N.

  (* strings.Replacer over the pairs "{env:KEY}" -> value (names are alphanumeric: at most one
     key can match at a position) *)
  Fixpoint env_replace (fuel : nat) (s : str) : str :=
    match fuel with
    | O => s
    | S f =>
        match s with
        | [] => []
        | c :: t =>
            match find (fun kv => has_prefix (ENVP ++ fst kv ++ [RB]) s) env with
            | Some kv => snd kv ++ env_replace f (drop (length (ENVP ++ fst kv ++ [RB])) s)
            | None => c :: env_replace f t
            end
        end
    end.

  (* regexp {env:([^\$]+)} replaced by "": same greedy shape as the macro pattern, closing brace *)
  Fixpoint last_rb (run : str) (i : nat) (best : option nat) : option nat :=
    match run with
    | [] => best
    | c :: t => last_rb t (S i) (if (N.eqb c RB && negb (Nat.eqb i 0))%bool then Some i else best)
    end.
  Fixpoint remove_unexpanded (fuel : nat) (s : str) : str :=
    match fuel with
    | O => s
    | S f =>
        match s with
        | [] => []
        | c :: t =>
            if has_prefix ENVP s then
              let run := take_run (drop 5 s) in
              match last_rb run 0 None with
              | Some j => remove_unexpanded f (drop (5 + j + 1) s)
              | None => c :: remove_unexpanded f t
              end
            else c :: remove_unexpanded f t
        end
    end.
  Definition env_str (s : str) : str :=
    let r := env_replace (S (length s)) s in remove_unexpanded (S (length r)) r.

  Fixpoint expand_env (n : node) : node :=
    let '(Node name args ch sn mc ln) := n in
    Node (env_str name) (map env_str args)
         (match ch with None => None | Some l => Some (map expand_env l) end) sn mc ln.

  (* parser.Read *)
  Definition read (inp : list N) : pres (list node) :=
    match read_tree 2000 inp 0 with
    | POk (l, _, _) => POk (map expand_env l)
    | PErr => PErr | PPanic => PPanic | POutOfFuel => POutOfFuel
    end.
End Unicode.

(* ---------- canonical printer and the trees it can express ---------- *)
Definition SP : N := 32%N.
Definition quote_tok (s : str) : str :=
  [DQ] ++ flat_map (fun c => if N.eqb c DQ then [BSL; DQ] else [c]) s ++ [DQ].

Fixpoint print_node (indent : nat) (n : node) : str :=
  let '(Node name args ch _ _ _) := n in
  repeat SP indent ++ name ++ flat_map (fun a => SP :: quote_tok a) args ++
  match ch with
  | None => [NL]
  | Some l => [SP; 123%N; NL] ++ flat_map (print_node (S indent)) l ++ repeat SP indent ++ [125%N; NL]
  end.
Definition print_nodes (l : list node) : str := flat_map (print_node 0) l.

(* a token the quoted syntax can carry unchanged and that no later expansion touches *)
Fixpoint bs_before_dq (s : str) : bool :=
  match s with
  | a :: ((b :: _) as t) => (N.eqb a BSL && N.eqb b DQ)%bool || bs_before_dq t
  | _ => false
  end.
Definition expressible_arg (s : str) : bool :=
  negb (str_eqb s LBRACE) && negb (str_eqb s RBRACE)
  && negb (has_suffix [BSL] s) && negb (bs_before_dq s)
  && negb (contains [DOLLAR; LPAR] s) && negb (contains [123;101;110;118;58]%N s).
Fixpoint expressible (n : node) : bool :=
  let '(Node name args ch sn mc _) := n in
  negb sn && negb mc && negb (str_eqb name [105;109;112;111;114;116]%N)
  && forallb expressible_arg args
  && match ch with None => true | Some l => forallb expressible l end.

(* trees modulo line numbers *)
Fixpoint node_eqb (a b : node) : bool :=
  let '(Node n1 a1 c1 s1 m1 _) := a in let '(Node n2 a2 c2 s2 m2 _) := b in
  str_eqb n1 n2 && list_eqb str_eqb a1 a2 && Bool.eqb s1 s2 && Bool.eqb m1 m2 &&
  match c1, c2 with
  | None, None => true
  | Some l1, Some l2 =>
      (fix go (x y : list node) : bool :=
         match x, y with
         | [], [] => true
         | p :: x', q :: y' => node_eqb p q && go x' y'
         | _, _ => false
         end) l1 l2
  | _, _ => false
  end.
Fixpoint node_eqb_lines (a b : node) : bool :=
  let '(Node n1 a1 c1 s1 m1 l1) := a in let '(Node n2 a2 c2 s2 m2 l2) := b in
  str_eqb n1 n2 && list_eqb str_eqb a1 a2 && Bool.eqb s1 s2 && Bool.eqb m1 m2 && Z.eqb l1 l2 &&
  match c1, c2 with
  | None, None => true
  | Some x1, Some x2 =>
      (fix go (x y : list node) : bool :=
         match x, y with
         | [], [] => true
         | p :: x', q :: y' => node_eqb_lines p q && go x' y'
         | _, _ => false
         end) x1 x2
  | _, _ => false
  end.
