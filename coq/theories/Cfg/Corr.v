(* C20 correspondence and monitor. *)
From Maddy Require Export Lib.Base Cfg.Model.
Local Open Scope Z_scope.

Record case := {
  c_inp : list N; c_files : list (str * list N); c_env : list (str * str);
  c_spaces : list N; c_letters : list N; c_digits : list N;    (* code points >= 128 of the case *)
  c_res : pres (list node);                                     (* parser.Read *)
  c_printed : option str;          (* canonical print of the result by the harness's printer *)
  c_rt : option (pres (list node)); (* parser.Read of the printed text *)
  c_src : option (list node)       (* the tree c_inp is the canonical print of, when the harness built one *)
}.

Definition in_tab (t : list N) (c : N) : bool := existsb (N.eqb c) t.
Definition files_of (c : case) (name : str) : option (list N) := alookup str_eqb name (c_files c).

Definition model_read (c : case) (inp : list N) : pres (list node) :=
  read (in_tab (c_spaces c)) (in_tab (c_letters c)) (in_tab (c_digits c)) (files_of c) (c_env c) inp.

Definition nodes_eqb_lines (a b : list node) : bool := list_eqb node_eqb_lines a b.
Definition nodes_eqb (a b : list node) : bool := list_eqb node_eqb a b.
Definition pres_eqb (a b : pres (list node)) : bool :=
  match a, b with
  | POk x, POk y => nodes_eqb_lines x y
  | PErr, PErr | PPanic, PPanic | POutOfFuel, POutOfFuel => true
  | _, _ => false
  end.

Definition agrees (c : case) : bool :=
  pres_eqb (model_read c (c_inp c)) (c_res c)
  && match c_res c, c_printed c with
     | POk t, Some p => str_eqb (print_nodes t) p
     | POk _, None => false
     | _, _ => true
     end
  && match c_printed c, c_rt c with
     | Some p, Some r => pres_eqb (model_read c p) r
     | _, _ => true
     end
  && match c_src c with Some t0 => str_eqb (print_nodes t0) (c_inp c) | None => true end.
Definition mismatches (cs : list case) : list N := find_idx (fun c => negb (agrees c)) cs.

(* post-conditions of an accepted tree *)
Fixpoint post (isl isd : N -> bool) (depth : nat) (n : node) : bool :=
  let '(Node name args ch sn mc _) := n in
  negb sn && negb mc && negb (str_eqb name [105;109;112;111;114;116]%N)
  && valid_name isl isd name
  && match depth with
     | O => false
     | S d => match ch with None => true | Some l => forallb (post isl isd d) l end
     end.

(* arguments that still contain a macro reference, anywhere in the tree *)
Fixpoint refs_node (n : node) : nat :=
  let '(Node _ args ch _ _ _) := n in
  (length (filter (fun a => match macro_matches (S (length a)) a with [] => false | _ => true end) args)
   + match ch with
     | None => 0
     | Some l => (fix go (l : list node) : nat := match l with [] => 0 | x :: t => refs_node x + go t end) l
     end)%nat.
Definition refs_in (l : list node) : nat := fold_left (fun a n => (a + refs_node n)%nat) l 0%nat.

Definition monitor (c : case) : list N :=
  (match c_res c with PPanic => [1%N] | _ => [] end) ++
  (match c_res c with
   | POk t => if forallb (post (in_tab (c_letters c)) (in_tab (c_digits c)) 258 ) t then [] else [2%N]
   | _ => []
   end) ++
  (match c_res c, c_rt c with
   | POk t, Some r =>
       if forallb expressible t then
         match r with POk t' => if nodes_eqb t t' then [] else [3%N] | _ => [3%N] end
       else []
   | _, _ => []
   end) ++
  (* no macro reference left: the accepted tree has more arguments with a reference pattern than the
     model's tree for the same input (which replaces every reference, defined or not) *)
  (match c_res c, model_read c (c_inp c) with
   | POk t, POk tm => if Nat.ltb (refs_in tm) (refs_in t) then [2%N] else []
   | _, _ => []
   end) ++
  (* the same for a tree the harness built itself: reading its canonical print returns it *)
  (match c_src c with
   | Some t0 =>
       if forallb expressible t0 && forallb (post (in_tab (c_letters c)) (in_tab (c_digits c)) 258) t0 then
         match c_res c with POk t => if nodes_eqb t0 t then [] else [3%N] | _ => [3%N] end
       else
         (* outside the sufficient condition [expressible] (any argument ending in a backslash is
            excluded there): the tree is still expressible in the syntax if the grammar - the
            model reader - takes its print back to it *)
         match model_read c (c_inp c) with
         | POk tm => if nodes_eqb t0 tm then
                       match c_res c with POk t => if nodes_eqb t0 t then [] else [3%N] | _ => [3%N] end
                     else []
         | _ => []
         end
   | None => []
   end).
Definition monitor_failures (cs : list case) : list (N * list N) :=
  let fix go (i : N) (l : list case) :=
    match l with
    | [] => []
    | c :: t => match monitor c with [] => go (N.succ i) t | cl => (i, cl) :: go (N.succ i) t end
    end in go 0%N cs.

Fixpoint size (n : node) : N :=
  match n_children n with
  | None => 1
  | Some l => 1 + fold_left (fun a x => N.add a (size x)) l 0%N
  end.
Definition tag (c : case) : N :=
  (match c_res c with
   | POk t => (1 + N.min 14 (fold_left (fun a x => N.add a (size x)) t 0%N))%N
   | PErr => 0 | PPanic => 30 | POutOfFuel => 31 end
   + (match c_files c with [] => 0 | _ => 32 end)
   + (match c_res c with POk t => if forallb expressible t then 64 else 0 | _ => 0 end))%N.
Definition tags (cs : list case) : list N := map tag cs.
