(* C20: printing a tree in canonical syntax and reading it again yields the same tree.
   Part 2: the parser on the token list of a printed tree.  Proofs. *)
From Maddy Require Import Lib.Base Cfg.Model Cfg.Lemmas Cfg.RoundTrip.
Local Open Scope Z_scope.

(* ---- the dispenser over a fixed token list ---- *)
Definition Seg (c : pctx) (i : Z) (ts : list token) : Prop :=
  exists pre post, toks c = pre ++ ts ++ post /\ i = Z.of_nat (length pre).

Lemma seg_nil c i : 0 <= i <= ntoks c -> Seg c i [].
Proof.
  intros H. exists (firstn (Z.to_nat i) (toks c)), (skipn (Z.to_nat i) (toks c)). split.
  - cbn [app]. symmetry. apply firstn_skipn.
  - rewrite firstn_length. unfold ntoks in H. lia.
Qed.
Lemma seg_head c i t ts : Seg c i (t :: ts) -> tok_at c i = Some t.
Proof.
  intros [pre [post [E ->]]]. unfold tok_at. destruct (Z.ltb_spec (Z.of_nat (length pre)) 0); [lia|].
  rewrite Nat2Z.id, E. rewrite nth_error_app2 by lia. rewrite Nat.sub_diag. reflexivity.
Qed.
Lemma seg_tail c i t ts : Seg c i (t :: ts) -> Seg c (i + 1) ts.
Proof.
  intros [pre [post [E ->]]]. exists (pre ++ [t]), post. split.
  - rewrite E, <- app_assoc. reflexivity.
  - rewrite app_length. cbn. lia.
Qed.
Lemma seg_app_l c i a b : Seg c i (a ++ b) -> Seg c i a.
Proof. intros [pre [post [E ->]]]. exists pre, (b ++ post). split; [rewrite E, <- app_assoc; reflexivity|reflexivity]. Qed.
Lemma seg_app_r c i a b : Seg c i (a ++ b) -> Seg c (i + Z.of_nat (length a)) b.
Proof.
  intros [pre [post [E ->]]]. exists (pre ++ a), post. split.
  - rewrite E, <- !app_assoc. reflexivity.
  - rewrite app_length. lia.
Qed.
Lemma seg_bound c i ts : Seg c i ts -> 0 <= i /\ i + Z.of_nat (length ts) <= ntoks c.
Proof. intros [pre [post [E ->]]]. unfold ntoks. rewrite E, !app_length. lia. Qed.
Lemma seg_toks c c' i ts : toks c' = toks c -> Seg c i ts -> Seg c' i ts.
Proof. intros E [pre [post [H1 H2]]]. exists pre, post. rewrite E. auto. Qed.

Lemma tok_at_toks c c' i : toks c' = toks c -> tok_at c' i = tok_at c i.
Proof. intros E. unfold tok_at. rewrite E. reflexivity. Qed.
Lemma ntoks_toks c c' : toks c' = toks c -> ntoks c' = ntoks c.
Proof. intros E. unfold ntoks. rewrite E. reflexivity. Qed.
Lemma tok_at_some_lt c i t : tok_at c i = Some t -> 0 <= i < ntoks c.
Proof.
  unfold tok_at, ntoks. destruct (Z.ltb_spec i 0) as [Hlt|Hge]; [discriminate|]. intros Hn.
  assert (Hx : nth_error (toks c) (Z.to_nat i) <> None) by congruence.
  apply nth_error_Some in Hx. lia.
Qed.
Lemma tok_at_none_ge c i : 0 <= i -> tok_at c i = None -> ntoks c <= i.
Proof.
  unfold tok_at, ntoks. destruct (Z.ltb_spec i 0) as [Hlt|Hge]; [lia|]. intros _ Hn.
  apply nth_error_None in Hn. lia.
Qed.

(* moving to the next token *)
Lemma next_ok c : cur c < ntoks c - 1 -> next c = (true, set_cur c (cur c + 1)).
Proof. intros H. unfold next. destruct (Z.ltb_spec (cur c) (ntoks c - 1)); [reflexivity|lia]. Qed.
Lemma next_end c : ntoks c - 1 <= cur c -> next c = (false, c).
Proof. intros H. unfold next. destruct (Z.ltb_spec (cur c) (ntoks c - 1)); [lia|reflexivity]. Qed.

Lemma next_arg_same c a b :
  0 <= cur c -> tok_at c (cur c) = Some a -> tok_at c (cur c + 1) = Some b ->
  t_line a + count_nl (t_text a) = t_line b ->
  next_arg c = (true, set_cur c (cur c + 1)).
Proof.
  intros H0 Ha Hb Hl. unfold next_arg.
  destruct (Z.ltb_spec (cur c) 0); [lia|].
  pose proof (tok_at_some_lt _ _ _ Hb).
  destruct (Z.leb_spec (ntoks c) (cur c)); [lia|].
  destruct (Z.ltb_spec (cur c) (ntoks c - 1)); [|lia].
  unfold same_line_rel. rewrite Ha, Hb. rewrite (proj2 (Z.eqb_eq _ _) Hl). reflexivity.
Qed.
Lemma next_arg_stop c a :
  0 <= cur c -> tok_at c (cur c) = Some a ->
  (forall b, tok_at c (cur c + 1) = Some b -> t_line a + count_nl (t_text a) <> t_line b) ->
  next_arg c = (false, c).
Proof.
  intros H0 Ha Hn. unfold next_arg.
  destruct (Z.ltb_spec (cur c) 0); [lia|].
  destruct (Z.leb_spec (ntoks c) (cur c)); [reflexivity|].
  destruct (Z.ltb_spec (cur c) (ntoks c - 1)); [|reflexivity].
  unfold same_line_rel. rewrite Ha. destruct (tok_at c (cur c + 1)) as [b|] eqn:Eb; [|reflexivity].
  specialize (Hn b eq_refl). apply Z.eqb_neq in Hn. rewrite Hn. reflexivity.
Qed.
Lemma next_line_ok c a b :
  0 <= cur c -> tok_at c (cur c) = Some a -> tok_at c (cur c + 1) = Some b ->
  t_line a + count_nl (t_text a) < t_line b ->
  next_line c = (true, set_cur c (cur c + 1)).
Proof.
  intros H0 Ha Hb Hl. unfold next_line.
  destruct (Z.ltb_spec (cur c) 0); [lia|].
  pose proof (tok_at_some_lt _ _ _ Hb).
  destruct (Z.leb_spec (ntoks c) (cur c)); [lia|].
  destruct (Z.ltb_spec (cur c) (ntoks c - 1)); [|lia].
  unfold same_line_rel. rewrite Ha, Hb. rewrite (proj2 (Z.ltb_lt _ _) Hl). reflexivity.
Qed.
Lemma next_line_end c : 0 <= cur c -> ntoks c - 1 <= cur c -> next_line c = (false, c).
Proof.
  intros H0 H. unfold next_line.
  destruct (Z.ltb_spec (cur c) 0); [lia|].
  destruct (Z.leb_spec (ntoks c) (cur c)); [reflexivity|].
  destruct (Z.ltb_spec (cur c) (ntoks c - 1)); [lia|reflexivity].
Qed.

Section Parse.
  Variable is_letter_u is_digit_u : N -> bool.
  Notation valid_name := (valid_name is_letter_u is_digit_u).
  Notation is_letter := (is_letter is_letter_u).
  Notation is_digit := (is_digit is_digit_u).
  Notation read_nodes := (read_nodes is_letter_u is_digit_u).
  Notation nodes_loop := (nodes_loop is_letter_u is_digit_u).
  Notation read_node := (read_node is_letter_u is_digit_u).
  Notation args_loop := (args_loop is_letter_u is_digit_u).
  Notation args_done := (args_done is_letter_u is_digit_u).

  (* arguments the parser leaves alone *)
  Definition parg (a : str) : bool :=
    negb (str_eqb a LBRACE) && negb (str_eqb a RBRACE) && negb (str_eqb a [BSL]) && negb (contains DP a).

  (* trees the parser returns unchanged from their token list *)
  Fixpoint pok (n : node) : bool :=
    let '(Node name args ch sn mc _) := n in
    negb sn && negb mc && valid_name name && forallb parg args &&
    match ch with None => true | Some l => forallb pok l end.

  Definition namechar (c : N) : bool := (is_letter c || is_digit c || allowed_punct c)%bool.
  Lemma valid_name_head c s : valid_name (c :: s) = true -> namechar c = true.
  Proof.
    unfold Model.valid_name. intros H. apply andb_true_iff in H. destruct H as [_ H].
    cbn [forallb] in H. apply andb_true_iff in H. exact (proj1 H).
  Qed.
  Lemma valid_name_chars s : valid_name s = true -> forallb namechar s = true.
  Proof. unfold Model.valid_name. destruct s; [discriminate|]. intros H. apply andb_true_iff in H. exact (proj2 H). Qed.

  Lemma valid_not_macro name : valid_name name = true -> has_prefix DP name = false.
  Proof.
    destruct name as [|c s]; [discriminate|]. intros H. apply valid_name_head in H.
    cbn [DP has_prefix]. destruct (N.eqb_spec DOLLAR c) as [<-|Hne]; [|reflexivity]. discriminate.
  Qed.
  Lemma valid_not_snippet name : valid_name name = true -> is_snippet_name name = false.
  Proof.
    destruct name as [|c s]; [discriminate|]. intros H. apply valid_name_head in H.
    unfold is_snippet_name. cbn [has_prefix]. destruct (N.eqb_spec LPAR c) as [<-|Hne]; [discriminate|reflexivity].
  Qed.
  Lemma valid_not_lbrace name : valid_name name = true -> str_eqb name LBRACE = false.
  Proof.
    destruct name as [|c s]; [discriminate|]. intros H. apply valid_name_head in H.
    unfold LBRACE, str_eqb. cbn [list_eqb]. destruct (N.eqb_spec c 123) as [->|Hne]; [discriminate|reflexivity].
  Qed.
  Lemma valid_not_rbrace name : valid_name name = true -> str_eqb name RBRACE = false.
  Proof.
    destruct name as [|c s]; [discriminate|]. intros H. apply valid_name_head in H.
    unfold RBRACE, str_eqb. cbn [list_eqb]. destruct (N.eqb_spec c 125) as [->|Hne]; [discriminate|reflexivity].
  Qed.
  Lemma valid_no_nl name : valid_name name = true -> count_nl name = 0.
  Proof.
    intros H. apply valid_name_chars in H. induction name as [|c s IH]; [reflexivity|].
    cbn [forallb] in H. apply andb_true_iff in H. destruct H as [Hc Hs].
    cbn [count_nl]. rewrite (IH Hs). destruct (N.eqb_spec c NL) as [->|Hne]; [discriminate|reflexivity].
  Qed.

  (* with no macro defined and no reference in the arguments, expansion is the identity *)
  Lemma contains_prefix p s : contains p s = false -> has_prefix p s = false.
  Proof. destruct s; cbn [contains]; intros H; apply orb_false_iff in H; exact (proj1 H). Qed.
  Lemma parg_not_ref a : parg a = true -> is_macro_ref a = false.
  Proof.
    unfold parg, is_macro_ref. rewrite !andb_true_iff, !negb_true_iff. intros [_ H].
    rewrite (contains_prefix _ _ H). reflexivity.
  Qed.
  Lemma expand_args_id args : forallb parg args = true -> expand_args [] args = POk args.
  Proof.
    induction args as [|a t IH]; [reflexivity|]. cbn [forallb]. intros H. apply andb_true_iff in H.
    destruct H as [Ha Ht]. cbn [expand_args]. rewrite (parg_not_ref a Ha). cbn [negb].
    unfold parg in Ha. rewrite !andb_true_iff, !negb_true_iff in Ha. destruct Ha as [_ Hc]. rewrite Hc.
    cbn [andb]. rewrite (IH Ht). reflexivity.
  Qed.
  Lemma expand_macros_id : forall n, pok n = true -> expand_macros [] n = POk n.
  Proof.
    induction n as [name args sn mc ln|name args l sn mc ln IHl] using node_ind2; intros H;
      cbn [pok] in H; rewrite !andb_true_iff, !negb_true_iff in H; destruct H as [[[[Hs Hm] Hn] Ha] Hc];
      cbn [expand_macros]; unfold is_macro_ref; rewrite (valid_not_macro _ Hn); cbn [andb];
      rewrite (expand_args_id _ Ha).
    - reflexivity.
    - assert (K : (fix go (l0 : list node) : pres (list node) :=
                     match l0 with
                     | [] => POk []
                     | x :: t => match expand_macros [] x with
                                 | POk x' => match go t with POk t' => POk (x' :: t') | e => e end
                                 | PErr => PErr | PPanic => PPanic | POutOfFuel => POutOfFuel
                                 end
                     end) l = POk l).
      { clear -IHl Hc. induction l as [|x t IHt]; [reflexivity|].
        inversion IHl as [|? ? Hx Ht]; subst. cbn [forallb] in Hc. apply andb_true_iff in Hc.
        destruct Hc as [Cx Ct]. rewrite (Hx Cx), (IHt Ht Ct). reflexivity. }
      rewrite K. reflexivity.
  Qed.

  (* ---- the tree the parser returns: the same tree with the line numbers of its tokens ---- *)
  Fixpoint relab (line : Z) (n : node) : node :=
    let '(Node name args ch sn mc _) := n in
    Node name args
      (match ch with
       | None => None
       | Some l => Some ((fix go (ln : Z) (l : list node) : list node :=
                            match l with [] => [] | x :: t => relab ln x :: go (ln + node_nl x) t end)
                           (line + args_nl args + 1) l)
       end) sn mc line.
  Definition relabs (ln : Z) (l : list node) : list node :=
    (fix go (ln : Z) (l : list node) : list node :=
       match l with [] => [] | x :: t => relab ln x :: go (ln + node_nl x) t end) ln l.
  Lemma relabs_cons ln x t : relabs ln (x :: t) = relab ln x :: relabs (ln + node_nl x) t.
  Proof. reflexivity. Qed.
  Lemma relab_eq line name args ch sn mc ln :
    relab line (Node name args ch sn mc ln)
    = Node name args (match ch with None => None | Some l => Some (relabs (line + args_nl args + 1) l) end) sn mc line.
  Proof. reflexivity. Qed.

  Lemma pok_relab : forall n line, pok (relab line n) = pok n.
  Proof.
    induction n as [name args sn mc ln|name args l sn mc ln IHl] using node_ind2; intros line; [reflexivity|].
    rewrite relab_eq. cbn [pok]. f_equal.
    generalize (line + args_nl args + 1). induction l as [|x t IHt]; intros z; [reflexivity|].
    inversion IHl as [|? ? Hx Ht]; subst. rewrite relabs_cons. cbn [forallb]. rewrite Hx, (IHt Ht). reflexivity.
  Qed.

  (* ---- fuel ---- *)
  Fixpoint bnode (n : node) : nat :=
    let '(Node _ args ch _ _ _) := n in
    (length args + 3 +
    match ch with
    | None => 0
    | Some l => (fix go (l : list node) : nat := match l with [] => 1 | x :: t => S (Nat.max (bnode x) (go t)) end) l
    end)%nat.
  Definition bloop (l : list node) : nat :=
    (fix go (l : list node) : nat := match l with [] => 1%nat | x :: t => S (Nat.max (bnode x) (go t)) end) l.
  Lemma bloop_cons x t : bloop (x :: t) = S (Nat.max (bnode x) (bloop t)). Proof. reflexivity. Qed.
  Lemma bnode_eq name args ch sn mc ln :
    bnode (Node name args ch sn mc ln) = (length args + 3 + match ch with None => 0 | Some l => bloop l end)%nat.
  Proof. reflexivity. Qed.

  (* ---- nesting depth of blocks ---- *)
  Fixpoint dep (n : node) : Z :=
    let '(Node _ _ ch _ _ _) := n in
    match ch with
    | None => 0
    | Some l => 1 + (fix go (l : list node) : Z := match l with [] => 0 | x :: t => Z.max (dep x) (go t) end) l
    end.
  Definition deps (l : list node) : Z :=
    (fix go (l : list node) : Z := match l with [] => 0 | x :: t => Z.max (dep x) (go t) end) l.
  Lemma deps_cons x t : deps (x :: t) = Z.max (dep x) (deps t). Proof. reflexivity. Qed.
  Lemma dep_eq name args ch sn mc ln :
    dep (Node name args ch sn mc ln) = match ch with None => 0 | Some l => 1 + deps l end.
  Proof. reflexivity. Qed.

  (* ---- where a node's tokens end ---- *)
  Lemma count_nl_app a b : count_nl (a ++ b) = count_nl a + count_nl b.
  Proof. induction a as [|c a IH]; [reflexivity|]. cbn [app count_nl]. rewrite IH. lia. Qed.
  Lemma args_nl_app a b : args_nl (a ++ b) = args_nl a + args_nl b.
  Proof. induction a as [|c a IH]; [reflexivity|]. cbn [app args_nl]. rewrite IH. lia. Qed.
  Lemma arg_toks_app line a b : arg_toks line (a ++ b) = arg_toks line a ++ arg_toks (line + args_nl a) b.
  Proof.
    revert line. induction a as [|x a IH]; intros line; cbn [app arg_toks args_nl]; [rewrite Z.add_0_r; reflexivity|].
    rewrite IH. rewrite Z.add_assoc. reflexivity.
  Qed.
  Lemma arg_toks_length line a : length (arg_toks line a) = length a.
  Proof. revert line. induction a as [|x a IH]; intros line; [reflexivity|]. cbn. rewrite IH. reflexivity. Qed.

  Lemma node_toks_last n line : pok n = true ->
    exists front tl, node_toks line n = front ++ [tl] /\ t_line tl + count_nl (t_text tl) = line + node_nl n - 1.
  Proof.
    destruct n as [name args ch sn mc ln]. intros H. cbn [pok] in H.
    rewrite !andb_true_iff in H. destruct H as [[[_ Hn] _] _].
    rewrite node_toks_eq, node_nl_eq. destruct ch as [l|].
    - exists (tk line name :: arg_toks line args ++ tk (line + args_nl args) LBRACE :: nodes_toks (line + args_nl args + 1) l),
             (tk (line + args_nl args + 1 + nodes_nl l) RBRACE).
      split; [cbn [app]; rewrite <- app_assoc; reflexivity|]. cbn. lia.
    - rewrite app_nil_r. destruct (rev args) as [|a r] eqn:Er.
      + assert (args = []) by (apply (f_equal (@rev str)) in Er; rewrite rev_involutive in Er; exact Er).
        subst args. exists [], (tk line name). split; [reflexivity|]. cbn. rewrite (valid_no_nl _ Hn). lia.
      + assert (Ea : args = rev r ++ [a]) by (apply (f_equal (@rev str)) in Er; rewrite rev_involutive in Er; exact Er).
        subst args. exists (tk line name :: arg_toks line (rev r)), (tk (line + args_nl (rev r)) a).
        split; [rewrite arg_toks_app; reflexivity|]. rewrite args_nl_app. cbn. lia.
  Qed.

  Lemma last_is_parg args x : forallb parg args = true -> parg x = false -> last_is args x = false.
  Proof.
    intros H Hx. unfold last_is. destruct (rev args) as [|a r] eqn:Er; [reflexivity|].
    assert (Ha : In a args) by (apply in_rev; rewrite Er; left; reflexivity).
    rewrite forallb_forall in H. specialize (H a Ha).
    destruct (str_eqb a x) eqn:E; [|reflexivity]. apply str_eqb_eq in E. subst. congruence.
  Qed.

  (* ---- the parser ---- *)
  Definition Same (c c' : pctx) (j nst : Z) : Prop :=
    toks c' = toks c /\ cur c' = j /\ nest c' = nst /\ snips c' = snips c /\ macros c' = macros c.
  Lemma same_trans c c1 c2 j1 n1 j2 n2 : Same c c1 j1 n1 -> Same c1 c2 j2 n2 -> Same c c2 j2 n2.
  Proof. intros [A [B [C [D E]]]] [A' [B' [C' [D' E']]]]. repeat split; congruence. Qed.
  Lemma same_set_cur c j : Same c (set_cur c j) j (nest c).
  Proof. repeat split. Qed.

  Lemma val_of c t : tok_at c (cur c) = Some t -> val c = t_text t.
  Proof. unfold val. intros ->. reflexivity. Qed.
  Lemma line_of c t : tok_at c (cur c) = Some t -> line c = t_line t.
  Proof. unfold line. intros ->. reflexivity. Qed.

  Lemma parg_not_lbrace a : parg a = true -> str_eqb a LBRACE = false.
  Proof. unfold parg. rewrite !andb_true_iff, !negb_true_iff. tauto. Qed.
  Lemma parg_rbrace_false : parg RBRACE = false. Proof. reflexivity. Qed.
  Lemma parg_bsl_false : parg [BSL] = false. Proof. reflexivity. Qed.

  Lemma args_consume : forall rem fuel c done lineA a0,
    forallb parg rem = true ->
    Seg c (cur c + 1) (arg_toks lineA rem) -> 0 <= cur c ->
    tok_at c (cur c) = Some a0 -> t_line a0 + count_nl (t_text a0) = lineA ->
    (length rem <= fuel)%nat ->
    exists c1 a1, Same c c1 (cur c + Z.of_nat (length rem)) (nest c) /\
      tok_at c1 (cur c1) = Some a1 /\ t_line a1 + count_nl (t_text a1) = lineA + args_nl rem /\
      args_loop fuel c done None false = args_loop (fuel - length rem) c1 (done ++ rem) None false.
  Proof.
    induction rem as [|a t IH]; intros fuel c done lineA a0 Hp Hseg H0 Ha0 Hl Hf.
    - exists c, a0. split; [repeat split; cbn; lia|]. split; [exact Ha0|]. split; [cbn; lia|].
      rewrite Nat.sub_0_r, app_nil_r. reflexivity.
    - destruct fuel as [|f]; [cbn in Hf; lia|].
      cbn [forallb] in Hp. apply andb_true_iff in Hp. destruct Hp as [Pa Pt].
      cbn [arg_toks] in Hseg.
      pose proof (seg_head _ _ _ _ Hseg) as Hn1.
      cbn [Model.args_loop]. unfold args_loop_body, step_arg.
      rewrite (next_arg_same c a0 _ H0 Ha0 Hn1) by (cbn; lia).
      set (c1 := set_cur c (cur c + 1)).
      assert (Hc1 : tok_at c1 (cur c1) = Some {| t_line := lineA; t_text := a |}) by exact Hn1.
      rewrite (val_of c1 _ Hc1). cbn [t_text]. rewrite (parg_not_lbrace a Pa).
      destruct (IH f c1 (done ++ [a]) (lineA + count_nl a) {| t_line := lineA; t_text := a |} Pt) as [c2 [a1 [S2 [T2 [L2 E2]]]]].
      + apply seg_tail in Hseg. exact Hseg.
      + cbn. lia.
      + exact Hc1.
      + reflexivity.
      + cbn in Hf. lia.
      + exists c2, a1. split; [|split; [exact T2|split]].
        * apply (same_trans c c1 c2 (cur c + 1) (nest c)); [apply same_set_cur|]. destruct S2 as [A [B [C [D E]]]]. repeat split; try assumption.
          rewrite B. cbn [length cur c1 set_cur]. lia.
        * rewrite L2. cbn [args_nl]. lia.
        * rewrite E2. rewrite <- app_assoc. reflexivity.
  Qed.

  Lemma read_nodes_S f c : read_nodes (S f) c = read_nodes_body (nodes_loop f) c.
  Proof. reflexivity. Qed.
  Lemma nodes_loop_S f c rq res :
    nodes_loop (S f) c rq res = nodes_loop_body (nodes_loop f) (read_node f) c rq res.
  Proof. reflexivity. Qed.
  Lemma read_node_S f c : read_node (S f) c = read_node_body is_letter_u is_digit_u (args_loop f) c.
  Proof. reflexivity. Qed.
  Lemma args_loop_S f c args ch cl :
    args_loop (S f) c args ch cl = args_loop_body (args_loop f) (args_done f) (read_nodes f) c args ch cl.
  Proof. reflexivity. Qed.
  Lemma args_done_S f c args ch : args_done (S f) c args ch = args_done_body (args_loop f) c args ch.
  Proof. reflexivity. Qed.

  Lemma advance_to c rq tn :
    -1 <= cur c -> tok_at c (cur c + 1) = Some tn ->
    (rq = true -> exists t0, 0 <= cur c /\ tok_at c (cur c) = Some t0 /\ t_line t0 + count_nl (t_text t0) < t_line tn) ->
    advance c rq = Some (POk (set_cur c (cur c + 1))).
  Proof.
    intros H1 Hn Hrq. unfold advance. destruct rq.
    - destruct (Hrq eq_refl) as [t0 [H0 [Ht0 Hl]]]. rewrite (next_line_ok c t0 tn H0 Ht0 Hn Hl). reflexivity.
    - pose proof (tok_at_some_lt _ _ _ Hn). rewrite next_ok by lia. reflexivity.
  Qed.
  Lemma advance_end c rq :
    ntoks c = cur c + 1 -> (rq = true -> 0 <= cur c) -> advance c rq = None.
  Proof.
    intros Hn Hrq. unfold advance. destruct rq.
    - rewrite next_line_end by (try apply Hrq; try reflexivity; lia). rewrite next_end by lia. reflexivity.
    - rewrite next_end by lia. reflexivity.
  Qed.

  Lemma node_toks_head line n : exists rest, node_toks line n = tk line (n_name n) :: rest.
  Proof. destruct n as [name args ch sn mc ln]. rewrite node_toks_eq. eexists. reflexivity. Qed.
  Lemma node_toks_len_pos line n : 1 <= Z.of_nat (length (node_toks line n)).
  Proof. destruct (node_toks_head line n) as [r ->]. cbn [length]. lia. Qed.

  Definition NodeSpec (n : node) : Prop :=
    forall fuel c line,
      pok n = true -> Seg c (cur c) (node_toks line n) ->
      0 <= nest c -> nest c + dep n <= 256 ->
      snips c = [] -> macros c = [] ->
      (forall b, tok_at c (cur c + Z.of_nat (length (node_toks line n))) = Some b -> t_line b = line + node_nl n) ->
      (bnode n <= fuel)%nat ->
      exists c', read_node fuel c = POk (relab line n, c') /\
                 Same c c' (cur c + Z.of_nat (length (node_toks line n)) - 1) (nest c).

  Lemma dep_nonneg : forall n, 0 <= dep n.
  Proof.
    induction n as [name args sn mc ln|name args l sn mc ln IHl] using node_ind2; rewrite dep_eq; [lia|].
    assert (0 <= deps l); [|lia]. induction l as [|x t IHt]; [cbn; lia|].
    inversion IHl; subst. rewrite deps_cons. lia.
  Qed.
  Lemma deps_nonneg l : 0 <= deps l.
  Proof. induction l as [|x t IHt]; [cbn; lia|]. rewrite deps_cons. pose proof (dep_nonneg x). lia. Qed.

  Lemma nodes_loop_rt : forall l, Forall NodeSpec l ->
    forall fuel c ln res rq (close : bool),
      forallb pok l = true -> Seg c (cur c + 1) (nodes_toks ln l) -> -1 <= cur c ->
      0 <= nest c -> nest c + deps l <= 256 -> snips c = [] -> macros c = [] ->
      (rq = true -> exists t0, 0 <= cur c /\ tok_at c (cur c) = Some t0 /\ t_line t0 + count_nl (t_text t0) < ln) ->
      (if close then tok_at c (cur c + 1 + Z.of_nat (length (nodes_toks ln l))) = Some (tk (ln + nodes_nl l) RBRACE) /\ 1 <= nest c
       else ntoks c = cur c + 1 + Z.of_nat (length (nodes_toks ln l))) ->
      (bloop l <= fuel)%nat ->
      exists c', nodes_loop fuel c rq res = POk (res ++ relabs ln l, c') /\
                 (if close then Same c c' (cur c + 1 + Z.of_nat (length (nodes_toks ln l))) (nest c - 1)
                  else Same c c' (cur c + Z.of_nat (length (nodes_toks ln l))) (nest c)).
  Proof.
    induction l as [|x t IHt]; intros HF fuel c ln res rq close Hp Hseg H1 Hn0 Hnd Hsn Hmc Hrq Hfol Hfuel.
    - destruct fuel as [|f]; [cbn in Hfuel; lia|]. rewrite nodes_loop_S. unfold nodes_loop_body.
      cbn [nodes_toks length] in *. rewrite Z.add_0_r in *. destruct close.
      + destruct Hfol as [Hrb Hn1].
        rewrite (advance_to c rq _ H1 Hrb) by (cbn [t_line tk]; intros E; destruct (Hrq E) as [t0 [A [B C]]]; exists t0; cbn in *; repeat split; try assumption; lia).
        set (c1 := set_cur c (cur c + 1)).
        assert (Hv : val c1 = RBRACE) by (apply (val_of c1 (tk (ln + nodes_nl []) RBRACE)); exact Hrb).
        rewrite Hv, str_eqb_refl. cbn [nest set_nest c1 set_cur].
        destruct (Z.ltb_spec (nest c - 1) 0); [lia|].
        eexists. split; [rewrite app_nil_r; reflexivity|].
        unfold Same, c1; cbn [toks cur nest snips macros set_cur set_nest]; repeat split; lia.
      + rewrite advance_end by (try lia; intros E; destruct (Hrq E) as [t0 [A _]]; exact A).
        exists c. split; [rewrite app_nil_r; reflexivity|]. unfold Same; repeat split; lia.
    - destruct fuel as [|f]; [cbn in Hfuel; lia|]. rewrite bloop_cons in Hfuel.
      inversion HF as [|? ? Hx Ht]; subst.
      cbn [forallb] in Hp. apply andb_true_iff in Hp. destruct Hp as [Px Pt].
      rewrite nodes_toks_cons in *. rewrite deps_cons in Hnd. rewrite app_length, Nat2Z.inj_add in *.
      destruct (node_toks_head ln x) as [rest0 Hhd].
      assert (Hfirst : tok_at c (cur c + 1) = Some (tk ln (n_name x))).
      { apply (seg_head c _ _ (rest0 ++ nodes_toks (ln + node_nl x) t)). rewrite Hhd in Hseg. exact Hseg. }
      rewrite nodes_loop_S. unfold nodes_loop_body.
      rewrite (advance_to c rq _ H1 Hfirst) by (cbn [t_line tk]; exact Hrq).
      set (c1 := set_cur c (cur c + 1)).
      destruct x as [name args ch sn mc l0]. cbn [n_name] in *.
      pose proof Px as Px'. cbn [pok] in Px'. rewrite !andb_true_iff, !negb_true_iff in Px'.
      destruct Px' as [[[[Hs Hm] Hvn] Hpa] Hpc]. subst sn mc.
      assert (Hv : val c1 = name) by (apply (val_of c1 (tk ln name)); exact Hfirst).
      rewrite Hv, (valid_not_rbrace _ Hvn).
      set (x := Node name args ch false false l0) in *.
      (* the node itself *)
      destruct (Hx f c1 ln Px) as [c2 [Er S2]].
      + apply (seg_toks c c1); [reflexivity|]. apply seg_app_l in Hseg. exact Hseg.
      + exact Hn0.
      + cbn [nest c1 set_cur]. lia.
      + exact Hsn.
      + exact Hmc.
      + (* what follows the node is on the next line *)
        intros b Hb. change (tok_at c (cur c + 1 + Z.of_nat (length (node_toks ln x))) = Some b) in Hb.
        apply seg_app_r in Hseg.
        destruct t as [|y t'].
        * cbn [nodes_toks length] in Hfol. rewrite Z.add_0_r in Hfol. destruct close.
          -- destruct Hfol as [Hrb _]. rewrite Hrb in Hb. inversion Hb; subst b. cbn. unfold nodes_nl. lia.
          -- apply tok_at_some_lt in Hb. lia.
        * rewrite nodes_toks_cons in Hseg. destruct (node_toks_head (ln + node_nl x) y) as [r1 Hh1].
          rewrite Hh1 in Hseg. cbn [app] in Hseg. apply seg_head in Hseg. rewrite Hseg in Hb.
          inversion Hb; subst b. reflexivity.
      + lia.
      + rewrite Er. unfold x at 1. rewrite relab_eq.
        rewrite (last_is_parg args RBRACE Hpa parg_rbrace_false). cbn [andb negb].
        destruct S2 as [T2 [C2 [N2 [SN2 MC2]]]].
        rewrite MC2. change (macros c1) with (macros c). rewrite Hmc.
        rewrite <- (relab_eq ln name args ch false false l0). change (Node name args ch false false l0) with x.
        rewrite expand_macros_id by (rewrite pok_relab; exact Px).
        (* the remaining siblings *)
        destruct (node_toks_last x ln Px) as [front [tl [Efl Hend]]].
        destruct (IHt Ht f c2 (ln + node_nl x) (res ++ [relab ln x]) true close Pt) as [c3 [E3 S3]].
        * apply (seg_toks c c2); [rewrite T2; reflexivity|]. apply seg_app_r in Hseg.
          rewrite C2. cbn [cur c1 set_cur].
          replace (cur c + 1 + Z.of_nat (length (node_toks ln x)) - 1 + 1) with (cur c + 1 + Z.of_nat (length (node_toks ln x))) by lia.
          exact Hseg.
        * rewrite C2. cbn [cur c1 set_cur]. pose proof (node_toks_len_pos ln x). lia.
        * rewrite N2. exact Hn0.
        * rewrite N2. cbn [nest c1 set_cur]. lia.
        * rewrite SN2. exact Hsn.
        * rewrite MC2. exact Hmc.
        * intros _. exists tl. rewrite C2. cbn [cur c1 set_cur].
          pose proof (node_toks_len_pos ln x). split; [lia|]. split; [|lia].
          rewrite (tok_at_toks c c2) by (rewrite T2; reflexivity).
          apply seg_app_l in Hseg. rewrite Efl in Hseg. apply seg_app_r in Hseg. apply seg_head in Hseg.
          rewrite Efl, app_length. cbn [length].
          replace (cur c + 1 + Z.of_nat (length front + 1) - 1) with (cur c + 1 + Z.of_nat (length front)) by lia.
          exact Hseg.
        * rewrite C2. cbn [cur c1 set_cur]. rewrite N2. cbn [nest c1 set_cur].
          rewrite (tok_at_toks c c2), (ntoks_toks c c2) by (rewrite T2; reflexivity).
          rewrite nodes_nl_cons in Hfol.
          replace (cur c + 1 + Z.of_nat (length (node_toks ln x)) - 1 + 1 + Z.of_nat (length (nodes_toks (ln + node_nl x) t)))
            with (cur c + 1 + (Z.of_nat (length (node_toks ln x)) + Z.of_nat (length (nodes_toks (ln + node_nl x) t)))) by lia.
          rewrite Z.add_assoc in Hfol |- *.
          replace (ln + node_nl x + nodes_nl t) with (ln + (node_nl x + nodes_nl t)) by lia. exact Hfol.
        * lia.
        * exists c3. split.
          -- rewrite E3, relabs_cons, <- app_assoc. reflexivity.
          -- destruct close; destruct S3 as [T3 [C3 [N3 [SN3 MC3]]]]; unfold Same; repeat split;
               try congruence; try (rewrite C3, C2; cbn [cur c1 set_cur]; lia);
               try (rewrite N3, N2; reflexivity); try (rewrite T3, T2; reflexivity);
               try (rewrite SN3, SN2; reflexivity); try (rewrite MC3, MC2; reflexivity).
  Qed.

  Lemma node_rt : forall n, NodeSpec n.
  Proof.
    induction n as [name args sn mc l0|name args l sn mc l0 IHl] using node_ind2;
      intros fuel c line Hp Hseg Hn0 Hnd Hsn Hmc Hfol Hfuel;
      pose proof Hp as Hp'; cbn [pok] in Hp'; rewrite !andb_true_iff, !negb_true_iff in Hp';
      destruct Hp' as [[[[Hs Hm] Hvn] Hpa] Hpc]; subst sn mc;
      rewrite node_toks_eq in Hseg, Hfol |- *; rewrite bnode_eq in Hfuel; rewrite node_nl_eq in Hfol;
      rewrite dep_eq in Hnd; rewrite relab_eq;
      destruct fuel as [|f]; try (cbn in Hfuel; lia);
      pose proof (seg_head _ _ _ _ Hseg) as Hname;
      pose proof (seg_bound _ _ _ Hseg) as [Hc0 _];
      rewrite read_node_S; unfold read_node_body;
      rewrite (val_of c _ Hname), (line_of c _ Hname); cbn [t_text t_line tk];
      rewrite (valid_not_lbrace _ Hvn), (valid_not_snippet _ Hvn);
      (destruct (args_consume args f c [] line (tk line name) Hpa) as [c1 [a1 [S1 [T1 [L1 E1]]]]];
       [ apply seg_tail in Hseg; apply seg_app_l in Hseg; exact Hseg
       | exact Hc0 | exact Hname | cbn [t_line t_text tk]; rewrite (valid_no_nl _ Hvn); lia | lia | ]);
      rewrite E1; cbn [app]; destruct S1 as [TK1 [C1 [N1 [SN1 MC1]]]].
    - (* no block *)
      rewrite app_nil_r in *. cbn [length] in *. rewrite arg_toks_length in *.
      remember (f - length args)%nat as g eqn:Eg. destruct g as [|g]; [lia|]. destruct g as [|g]; [lia|].
      rewrite args_loop_S. unfold args_loop_body, step_arg.
      rewrite (next_arg_stop c1 a1); [|lia|exact T1|].
      + rewrite args_done_S. unfold args_done_body.
        rewrite (last_is_parg args [BSL] Hpa parg_bsl_false).
        unfold parse_as_macro. rewrite (valid_not_macro _ Hvn). cbn [negb andb]. rewrite Hvn. cbn [negb].
        exists c1. split; [reflexivity|]. unfold Same. repeat split; try assumption. lia.
      + intros b Hb. rewrite (tok_at_toks c c1) in Hb by exact TK1. rewrite C1 in Hb.
        replace (cur c + Z.of_nat (length args) + 1) with (cur c + Z.of_nat (S (length args))) in Hb by lia.
        specialize (Hfol b Hb). lia.
    - (* a block *)
      cbn [length] in *. rewrite app_length in *. cbn [length] in *. rewrite app_length in *. cbn [length] in *.
      rewrite arg_toks_length in *.
      remember (f - length args)%nat as g eqn:Eg. destruct g as [|g]; [lia|]. destruct g as [|g]; [lia|].
      apply seg_tail in Hseg. pose proof (seg_app_r _ _ _ _ Hseg) as Hblk. rewrite arg_toks_length in Hblk.
      pose proof (seg_head _ _ _ _ Hblk) as Hlb.
      rewrite args_loop_S. unfold args_loop_body, step_arg.
      assert (Hlb1 : tok_at c1 (cur c1 + 1) = Some (tk (line + args_nl args) LBRACE)).
      { rewrite (tok_at_toks c c1) by exact TK1. rewrite C1.
        replace (cur c + Z.of_nat (length args) + 1) with (cur c + 1 + Z.of_nat (length args)) by lia. exact Hlb. }
      rewrite (next_arg_same c1 a1 _ ltac:(lia) T1 Hlb1) by (cbn [t_line tk]; lia).
      set (c2 := set_cur c1 (cur c1 + 1)).
      rewrite (val_of c2 _ Hlb1). cbn [t_text tk]. rewrite str_eqb_refl.
      rewrite read_nodes_S. unfold read_nodes_body.
      pose proof (deps_nonneg l) as Hdl.
      destruct (Z.ltb_spec 255 (nest c2)) as [Hbad|_]; [cbn [nest c2 set_cur] in Hbad; lia|].
      set (c3 := set_nest c2 (nest c2 + 1)).
      destruct (nodes_loop_rt l IHl g c3 (line + args_nl args + 1) [] false true Hpc) as [c4 [E4 S4]].
      + apply (seg_toks c c3); [exact TK1|]. apply seg_tail in Hblk. apply seg_app_l in Hblk.
        cbn [cur c3 c2 set_nest set_cur]. rewrite C1.
        replace (cur c + Z.of_nat (length args) + 1 + 1) with (cur c + 1 + Z.of_nat (length args) + 1) by lia. exact Hblk.
      + cbn [cur c3 c2 set_nest set_cur]. lia.
      + cbn [nest c3 c2 set_nest set_cur]. lia.
      + cbn [nest c3 c2 set_nest set_cur]. lia.
      + cbn [snips c3 c2 set_nest set_cur]. congruence.
      + cbn [macros c3 c2 set_nest set_cur]. congruence.
      + discriminate.
      + split; [|cbn [nest c3 c2 set_nest set_cur]; lia].
        rewrite (tok_at_toks c c3) by exact TK1. cbn [cur c3 c2 set_nest set_cur]. rewrite C1.
        apply seg_tail in Hblk. apply seg_app_r in Hblk. apply seg_head in Hblk.
        replace (cur c + Z.of_nat (length args) + 1 + 1 + Z.of_nat (length (nodes_toks (line + args_nl args + 1) l)))
          with (cur c + 1 + Z.of_nat (length args) + 1 + Z.of_nat (length (nodes_toks (line + args_nl args + 1) l))) by lia.
        exact Hblk.
      + lia.
      + rewrite E4. cbn [app].
        rewrite args_done_S. unfold args_done_body.
        rewrite (last_is_parg args [BSL] Hpa parg_bsl_false).
        unfold parse_as_macro. rewrite (valid_not_macro _ Hvn). cbn [negb andb]. rewrite Hvn. cbn [negb].
        exists c4. split; [reflexivity|].
        destruct S4 as [T4 [C4 [N4 [SN4 MC4]]]]. unfold Same. repeat split.
        * rewrite T4. exact TK1.
        * rewrite C4. cbn [cur c3 c2 set_nest set_cur]. rewrite C1. lia.
        * rewrite N4. cbn [nest c3 c2 set_nest set_cur]. lia.
        * rewrite SN4. exact SN1.
        * rewrite MC4. exact MC1.
  Qed.
End Parse.
