(* C20: printing a tree in canonical syntax and reading it again yields the same tree.
   Part 1: the lexer on printed text.  Proofs. *)
From Maddy Require Import Lib.Base Cfg.Model.
Local Open Scope Z_scope.

Section Lexer.
  Variable is_space_u : N -> bool.
  Notation lex := (lex is_space_u).
  Notation is_space := (is_space is_space_u).

  (* the body of a quoted token *)
  Definition enc (s : str) : str := flat_map (fun c => if N.eqb c DQ then [BSL; DQ] else [c]) s.

  (* strings the quoted syntax carries unchanged, given a pending backslash or not *)
  Fixpoint qok (esc : bool) (s : str) : bool :=
    match s with
    | [] => negb esc
    | c :: t => if esc then negb (N.eqb c DQ) && qok false t
                else if N.eqb c BSL then qok true t else qok false t
    end.

  Lemma count_nl_cons c t : count_nl (c :: t) = (if N.eqb c NL then 1 else 0) + count_nl t.
  Proof. reflexivity. Qed.

  Lemma lex_quoted : forall s esc rv cm line tl rest,
    qok esc s = true ->
    lex (enc s ++ DQ :: rest) rv cm true esc line tl
    = mk_tok tl (rev s ++ (if esc then BSL :: rv else rv))
        :: lex rest [] false false false (line + count_nl s) tl.
  Proof.
    induction s as [|c t IH]; intros esc rv cm line tl rest H.
    - destruct esc; [discriminate|]. cbn [enc flat_map app rev count_nl].
      cbn [Model.lex]. change (N.eqb DQ BSL) with false. rewrite N.eqb_refl. cbn [negb andb].
      rewrite Z.add_0_r. reflexivity.
    - cbn [qok] in H. rewrite count_nl_cons.
      destruct esc.
      + apply andb_true_iff in H. destruct H as [Hc Ht]. apply negb_true_iff in Hc.
        unfold enc. cbn [flat_map]. rewrite Hc. cbn [app]. fold (enc t).
        cbn [Model.lex]. cbn [negb andb]. rewrite Hc. cbn [negb andb].
        rewrite (IH false (c :: BSL :: rv) cm _ tl rest Ht). cbn [rev].
        rewrite <- app_assoc. cbn [app]. destruct (N.eqb c NL); rewrite ?Z.add_assoc, ?Z.add_0_r; reflexivity.
      + destruct (N.eqb c BSL) eqn:Eb.
        * apply N.eqb_eq in Eb. subst c.
          unfold enc. cbn [flat_map]. change (N.eqb BSL DQ) with false. cbn [app]. fold (enc t).
          cbn [Model.lex]. rewrite N.eqb_refl. cbn [negb andb].
          rewrite (IH true rv cm line tl rest H). cbn [rev]. rewrite <- app_assoc. cbn [app].
          change (N.eqb BSL NL) with false. rewrite Z.add_0_l. reflexivity.
        * destruct (N.eqb c DQ) eqn:Ed.
          -- apply N.eqb_eq in Ed. subst c.
             unfold enc. cbn [flat_map]. rewrite N.eqb_refl. cbn [app]. fold (enc t).
             cbn [Model.lex]. rewrite N.eqb_refl. cbn [negb andb].
             change (N.eqb DQ BSL) with false. rewrite N.eqb_refl. cbn [negb andb].
             change (N.eqb DQ NL) with false.
             cbv iota.
             rewrite (IH false (DQ :: rv) cm line tl rest H). cbn [rev]. rewrite <- app_assoc. cbn [app].
             rewrite Z.add_0_l. reflexivity.
          -- unfold enc. cbn [flat_map]. rewrite Ed. cbn [app]. fold (enc t).
             cbn [Model.lex]. rewrite Eb, Ed. cbn [negb andb].
             rewrite (IH false (c :: rv) cm _ tl rest H). cbn [rev]. rewrite <- app_assoc. cbn [app].
             destruct (N.eqb c NL); rewrite ?Z.add_assoc, ?Z.add_0_r; reflexivity.
  Qed.

  (* ---- outside quotes ---- *)
  Definition lex0 (inp : list N) (line : Z) : list token := lex inp [] false false false line 0.

  Lemma lex_tl_irrel : forall inp cm line tl1 tl2,
    lex inp [] cm false false line tl1 = lex inp [] cm false false line tl2.
  Proof.
    induction inp as [|ch rest IH]; intros cm line tl1 tl2; [reflexivity|].
    cbn [Model.lex]. destruct (is_space ch).
    - destruct (N.eqb ch CR); [apply IH|]. apply IH.
    - destruct (cm || N.eqb ch HASH)%bool; [apply IH|]. reflexivity.
  Qed.
  Lemma lex_lex0 inp line tl : lex inp [] false false false line tl = lex0 inp line.
  Proof. apply lex_tl_irrel. Qed.

  Definition SPc : N := 32%N.
  Lemma is_space_SP : is_space SPc = true. Proof. reflexivity. Qed.
  Lemma is_space_NL : is_space NL = true. Proof. reflexivity. Qed.

  Lemma lex0_spaces n rest line : lex0 (repeat SPc n ++ rest) line = lex0 rest line.
  Proof. induction n as [|n IH]; [reflexivity|]. cbn [repeat app]. unfold lex0 in *. cbn [Model.lex]. exact IH. Qed.
  Lemma lex0_SP rest line : lex0 (SPc :: rest) line = lex0 rest line.
  Proof. reflexivity. Qed.
  Lemma lex0_NL rest line : lex0 (NL :: rest) line = lex0 rest (line + 1).
  Proof. reflexivity. Qed.

  (* characters of a bare word *)
  Definition wchar (c : N) : bool := negb (is_space c) && negb (N.eqb c HASH) && negb (N.eqb c DQ).
  Definition wordok (s : str) : bool := match s with [] => false | _ => forallb wchar s end.

  Lemma lex_word_acc : forall w rv line tl rest,
    forallb wchar w = true -> rv <> [] ->
    lex (w ++ rest) rv false false false line tl = lex rest (rev w ++ rv) false false false line tl.
  Proof.
    induction w as [|c w IH]; intros rv line tl rest Hw Hrv; [reflexivity|].
    cbn [forallb] in Hw. apply andb_true_iff in Hw. destruct Hw as [Hc Hw].
    unfold wchar in Hc. rewrite !andb_true_iff, !negb_true_iff in Hc. destruct Hc as [[Hs Hh] Hd].
    cbn [app Model.lex]. rewrite Hs, Hh. cbn [orb].
    destruct rv as [|r0 rv']; [contradiction|].
    rewrite IH by (try assumption; discriminate). cbn [rev]. rewrite <- app_assoc. reflexivity.
  Qed.

  Definition spish (s : list N) : Prop := exists r, s = SPc :: r \/ s = NL :: r.

  Lemma lex_flush rv line tl s :
    spish s -> rv <> [] ->
    lex s rv false false false line tl = mk_tok tl rv :: lex0 s line.
  Proof.
    intros [r [->| ->]] Hrv; destruct rv as [|r0 rv']; try contradiction; unfold lex0; cbn [Model.lex];
      change (is_space SPc) with true; change (is_space NL) with true; cbv iota;
      change (N.eqb SPc CR) with false; change (N.eqb NL CR) with false; cbv iota;
      f_equal; apply lex_tl_irrel.
  Qed.

  Lemma lex0_word w s line :
    wordok w = true -> spish s ->
    lex0 (w ++ s) line = {| t_line := line; t_text := w |} :: lex0 s line.
  Proof.
    intros Hw Hs. destruct w as [|c w]; [discriminate|]. unfold wordok in Hw.
    cbn [forallb] in Hw. apply andb_true_iff in Hw. destruct Hw as [Hc Hw].
    unfold wchar in Hc. rewrite !andb_true_iff, !negb_true_iff in Hc. destruct Hc as [[Hsp Hh] Hd].
    unfold lex0 at 1. cbn [app Model.lex]. rewrite Hsp, Hh, Hd. cbn [orb].
    rewrite lex_word_acc by (try assumption; discriminate).
    rewrite lex_flush by (try assumption; destruct (rev w); discriminate).
    unfold mk_tok. rewrite rev_app_distr, rev_involutive. reflexivity.
  Qed.

  (* ---- arguments ---- *)
  Definition args_print (args : list str) : str := flat_map (fun a => SPc :: quote_tok a) args.
  Fixpoint args_nl (args : list str) : Z := match args with [] => 0 | a :: t => count_nl a + args_nl t end.
  Fixpoint arg_toks (line : Z) (args : list str) : list token :=
    match args with
    | [] => []
    | a :: t => {| t_line := line; t_text := a |} :: arg_toks (line + count_nl a) t
    end.

  Lemma lex0_args : forall args line rest,
    forallb (qok false) args = true ->
    lex0 (args_print args ++ rest) line = arg_toks line args ++ lex0 rest (line + args_nl args).
  Proof.
    induction args as [|a t IH]; intros line rest H.
    - cbn. rewrite Z.add_0_r. reflexivity.
    - cbn [forallb] in H. apply andb_true_iff in H. destruct H as [Ha Ht].
      unfold args_print. cbn [flat_map]. fold (args_print t).
      unfold quote_tok. cbn [app]. rewrite <- !app_assoc. cbn [app].
      rewrite lex0_SP. unfold lex0 at 1. cbn [Model.lex].
      change (is_space DQ) with false. change (N.eqb DQ HASH) with false. cbn [orb]. rewrite N.eqb_refl.
      fold (enc a). rewrite (lex_quoted a false [] false line line _ Ha).
      rewrite lex_lex0, IH by exact Ht. cbn [arg_toks args_nl app]. unfold mk_tok.
      rewrite app_nil_r, rev_involutive, Z.add_assoc. reflexivity.
  Qed.

  Lemma args_print_spish args tail : spish tail -> spish (args_print args ++ tail).
  Proof. intros H. destruct args as [|a t]; [exact H|]. eexists. left. reflexivity. Qed.

  (* ---- whole trees ---- *)
  Lemma node_ind2 (P : node -> Prop) :
    (forall name args sn mc ln, P (Node name args None sn mc ln)) ->
    (forall name args l sn mc ln, Forall P l -> P (Node name args (Some l) sn mc ln)) ->
    forall n, P n.
  Proof.
    intros H1 H2. fix IH 1. intros [name args [l|] sn mc ln]; [|apply H1].
    apply H2. induction l as [|x t IHl]; constructor; [apply IH|exact IHl].
  Qed.

  Fixpoint node_nl (n : node) : Z :=
    let '(Node _ args ch _ _ _) := n in
    args_nl args + 1 +
    match ch with
    | None => 0
    | Some l => (fix go (l : list node) : Z := match l with [] => 0 | x :: t => node_nl x + go t end) l + 1
    end.
  Definition nodes_nl (l : list node) : Z :=
    (fix go (l : list node) : Z := match l with [] => 0 | x :: t => node_nl x + go t end) l.
  Lemma nodes_nl_cons x t : nodes_nl (x :: t) = node_nl x + nodes_nl t. Proof. reflexivity. Qed.
  Lemma node_nl_eq name args ch sn mc ln :
    node_nl (Node name args ch sn mc ln)
    = args_nl args + 1 + match ch with None => 0 | Some l => nodes_nl l + 1 end.
  Proof. reflexivity. Qed.

  Definition tk (line : Z) (s : str) : token := {| t_line := line; t_text := s |}.
  Fixpoint node_toks (line : Z) (n : node) : list token :=
    let '(Node name args ch _ _ _) := n in
    let l1 := line + args_nl args in
    tk line name :: arg_toks line args ++
    match ch with
    | None => []
    | Some l =>
        tk l1 LBRACE ::
        (fix go (ln : Z) (l : list node) : list token :=
           match l with [] => [] | x :: t => node_toks ln x ++ go (ln + node_nl x) t end) (l1 + 1) l
        ++ [tk (l1 + 1 + nodes_nl l) RBRACE]
    end.
  Definition nodes_toks (ln : Z) (l : list node) : list token :=
    (fix go (ln : Z) (l : list node) : list token :=
       match l with [] => [] | x :: t => node_toks ln x ++ go (ln + node_nl x) t end) ln l.
  Lemma nodes_toks_cons ln x t : nodes_toks ln (x :: t) = node_toks ln x ++ nodes_toks (ln + node_nl x) t.
  Proof. reflexivity. Qed.
  Lemma node_toks_eq line name args ch sn mc ln :
    node_toks line (Node name args ch sn mc ln)
    = tk line name :: arg_toks line args ++
      match ch with
      | None => []
      | Some l => tk (line + args_nl args) LBRACE :: nodes_toks (line + args_nl args + 1) l
                  ++ [tk (line + args_nl args + 1 + nodes_nl l) RBRACE]
      end.
  Proof. reflexivity. Qed.

  (* trees whose print lexes back: bare-word names, arguments the quoted syntax carries *)
  Fixpoint lexable (n : node) : bool :=
    let '(Node name args ch _ _ _) := n in
    wordok name && forallb (qok false) args &&
    match ch with None => true | Some l => forallb lexable l end.

  Lemma print_node_eq indent name args ch sn mc ln :
    print_node indent (Node name args ch sn mc ln)
    = repeat SPc indent ++ name ++ args_print args ++
      match ch with
      | None => [NL]
      | Some l => [SPc; 123%N; NL] ++ flat_map (print_node (S indent)) l ++ repeat SPc indent ++ [125%N; NL]
      end.
  Proof. reflexivity. Qed.

  Lemma wordok_lbrace : wordok LBRACE = true. Proof. reflexivity. Qed.
  Lemma wordok_rbrace : wordok RBRACE = true. Proof. reflexivity. Qed.

  Lemma lex0_print_node : forall n indent line rest,
    lexable n = true ->
    lex0 (print_node indent n ++ rest) line = node_toks line n ++ lex0 rest (line + node_nl n).
  Proof.
    induction n as [name args sn mc ln|name args l sn mc ln IHl] using node_ind2; intros indent line rest H;
      cbn [lexable] in H; rewrite !andb_true_iff in H; destruct H as [[Hn Ha] Hc];
      rewrite print_node_eq, node_toks_eq, node_nl_eq, <- !app_assoc, lex0_spaces.
    - rewrite lex0_word; [|exact Hn|apply args_print_spish; eexists; right; reflexivity].
      rewrite lex0_args by exact Ha. cbn [app]. rewrite lex0_NL. rewrite app_nil_r, Z.add_0_r, Z.add_assoc.
      reflexivity.
    - rewrite lex0_word; [|exact Hn|apply args_print_spish; eexists; left; reflexivity].
      rewrite lex0_args by exact Ha. cbn [app]. rewrite lex0_SP.
      change (123%N :: NL :: ?x) with (LBRACE ++ NL :: x).
      rewrite (lex0_word LBRACE) by (try reflexivity; eexists; right; reflexivity).
      rewrite lex0_NL.
      (* the children *)
      assert (K : forall l0 ln0 rest0, Forall (fun n => forall indent line rest, lexable n = true ->
                      lex0 (print_node indent n ++ rest) line = node_toks line n ++ lex0 rest (line + node_nl n)) l0 ->
                    forallb lexable l0 = true ->
                    lex0 (flat_map (print_node (S indent)) l0 ++ rest0) ln0
                    = nodes_toks ln0 l0 ++ lex0 rest0 (ln0 + nodes_nl l0)).
      { clear. induction l0 as [|x t IHt]; intros ln0 rest0 HF HL.
        - cbn. rewrite Z.add_0_r. reflexivity.
        - inversion HF as [|? ? Hx Ht]; subst. cbn [forallb] in HL. apply andb_true_iff in HL. destruct HL as [Lx Lt].
          cbn [flat_map]. rewrite <- app_assoc, Hx by exact Lx. rewrite IHt by assumption.
          rewrite nodes_toks_cons, nodes_nl_cons, <- app_assoc, Z.add_assoc. reflexivity. }
      rewrite K by assumption. rewrite lex0_spaces.
      change (125%N :: NL :: rest) with (RBRACE ++ NL :: rest).
      rewrite (lex0_word RBRACE) by (try reflexivity; eexists; right; reflexivity).
      rewrite lex0_NL. cbn [app]. rewrite <- !app_assoc. cbn [app].
      unfold tk. rewrite <- app_assoc. cbn [app].
      replace (line + (args_nl args + 1 + (nodes_nl l + 1))) with (line + args_nl args + 1 + nodes_nl l + 1) by lia.
      reflexivity.
  Qed.
End Lexer.
