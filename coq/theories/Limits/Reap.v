(* C11: one BucketSet of semaphores with the reaper (internal/limits/limiters/bucket.go): when the
   table holds more than MaxBuckets buckets a take first drops every bucket that has not been used
   for ReapInterval and has no permit held or waited for, and refuses when the table is still
   over-full.  Time is the event [RIdle] (ReapInterval passes without any take).  Definitions only. *)
From Maddy Require Export Lib.Base.
Local Open Scope N_scope.

Record rbucket := { rb_users : N; rb_stale : bool }.
Definition rtable := list (str * rbucket).
Inductive rop := RTake (k : str) | RRelease (k : str) | RIdle.
Inductive rres := ROk | RTimeout | RFull | RPanic.
Definition rres_eqb (a b : rres) : bool :=
  match a, b with ROk, ROk | RTimeout, RTimeout | RFull, RFull | RPanic, RPanic => true | _, _ => false end.

Fixpoint rset (m : rtable) (k : str) (b : rbucket) : rtable :=
  match m with
  | [] => [(k, b)]
  | (k', b') :: t => if str_eqb k k' then (k, b) :: t else (k', b') :: rset t k b
  end.
Definition keep (e : str * rbucket) : bool := negb (rb_stale (snd e) && (rb_users (snd e) =? 0)).

Section Reap.
  Variable cap : N.      (* concurrency per key, > 0 *)
  Variable maxb : N.     (* MaxBuckets *)

  Definition rstep (m : rtable) (o : rop) : rtable * rres :=
    match o with
    | RIdle => (map (fun e => (fst e, {| rb_users := rb_users (snd e); rb_stale := true |})) m, ROk)
    | RRelease k =>
        match alookup str_eqb k m with
        | None => (m, ROk)
        | Some b => if 0 <? rb_users b
                    then (rset m k {| rb_users := rb_users b - 1; rb_stale := rb_stale b |}, ROk)
                    else (m, RPanic)
        end
    | RTake k =>
        let m1 := if maxb <? N.of_nat (length m) then filter keep m else m in
        if maxb <? N.of_nat (length m1) then (m1, RFull)
        else
          let u := match alookup str_eqb k m1 with Some b => rb_users b | None => 0 end in
          if u <? cap then (rset m1 k {| rb_users := u + 1; rb_stale := false |}, ROk)
          else (rset m1 k {| rb_users := u; rb_stale := false |}, RTimeout)
    end.

  Fixpoint rrun (m : rtable) (ops : list rop) : list rres :=
    match ops with
    | [] => []
    | o :: t => let r := rstep m o in snd r :: rrun (fst r) t
    end.
End Reap.

(* ---- correspondence ---- *)
Record case := { c_cap : N; c_max : N; c_ops : list rop; c_obs : list rres }.
Definition agrees (c : case) : bool := list_eqb rres_eqb (rrun (c_cap c) (c_max c) [] (c_ops c)) (c_obs c).
Definition mismatches (cs : list case) : list N := find_idx (fun c => negb (agrees c)) cs.

(* ---- monitor on the observations alone: holders per key never exceed the limit, returning a held
   permit never panics ---- *)
Fixpoint cnt (h : list str) (k : str) : N :=
  match h with [] => 0 | x :: t => (if str_eqb x k then 1 else 0) + cnt t k end.
Fixpoint rm1 (h : list str) (k : str) : list str :=
  match h with [] => [] | x :: t => if str_eqb x k then t else x :: rm1 t k end.
Fixpoint mon (cap : N) (h : list str) (ops : list rop) (obs : list rres) : list N :=
  match ops, obs with
  | o :: ot, r :: rt =>
      match o, r with
      | RTake k, ROk => (if cnt h k <? cap then [] else [30]) ++ mon cap (k :: h) ot rt
      | RRelease k, ROk => mon cap (rm1 h k) ot rt
      | RRelease k, _ => (if 0 <? cnt h k then [31] else []) ++ mon cap (rm1 h k) ot rt
      | _, RPanic => [31] ++ mon cap h ot rt
      | _, _ => mon cap h ot rt
      end
  | _, _ => []
  end.
Definition monitor (c : case) : list N := mon (c_cap c) [] (c_ops c) (c_obs c).
Definition dedup_N (l : list N) : list N :=
  fold_right (fun x acc => if existsb (N.eqb x) acc then acc else x :: acc) [] l.
Definition monitor_failures (cs : list case) : list (N * list N) :=
  let fix go (i : N) (l : list case) :=
    match l with
    | [] => []
    | c :: t => match dedup_N (monitor c) with [] => go (N.succ i) t | cl => (i, cl) :: go (N.succ i) t end
    end in go 0%N cs.
Definition tag (c : case) : N :=
  (if existsb (fun r => rres_eqb r RFull) (c_obs c) then 1 else 0)
  + (if existsb (fun r => rres_eqb r RTimeout) (c_obs c) then 2 else 0)
  + (if existsb (fun o => match o with RIdle => true | _ => false end) (c_ops c) then 4 else 0)
  + (* a reaping take: the table shrank *)
    (let fix go (m : rtable) (ops : list rop) : bool :=
       match ops with
       | [] => false
       | o :: t => let m' := fst (rstep (c_cap c) (c_max c) m o) in
                   (match o with RTake _ => N.of_nat (length m') <? N.of_nat (length m) | _ => false end) || go m' t
       end in if go [] (c_ops c) then 8 else 0).
Definition tags (cs : list case) : list N := map tag cs.
