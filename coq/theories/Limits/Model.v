(* C11: executable model of internal/limits (Group, BucketSet, MultiLimit, Semaphore, Rate).
   A take that cannot proceed is modelled by its time-out outcome (with roll-back); the same
   take attempted later covers the case where a concurrent release lets it through.
   Definitions only. *)
From Maddy Require Export Lib.Base.
Local Open Scope N_scope.

Definition key := str.

Inductive lim :=
| LSem (cap used : N)         (* limiters.Semaphore: cap = 0 means no limit *)
| LRate (burst tokens : N).   (* limiters.Rate: Release is a no-op; refill is an external event *)

Definition try_take (l : lim) : option lim :=        (* None: would block until the time-out *)
  match l with
  | LSem cap used => if cap =? 0 then Some l else if used <? cap then Some (LSem cap (used + 1)) else None
  | LRate b t => if b =? 0 then Some l else if 0 <? t then Some (LRate b (t - 1)) else None
  end.
Definition release (l : lim) : option lim :=         (* None: panic "mismatched Release call" *)
  match l with
  | LSem cap used => if cap =? 0 then Some l else if 0 <? used then Some (LSem cap (used - 1)) else None
  | LRate _ _ => Some l
  end.

(* MultiLimit.Release *)
Fixpoint multi_release (ls : list lim) : option (list lim) :=
  match ls with
  | [] => Some []
  | l :: t => match release l, multi_release t with
              | Some l', Some t' => Some (l' :: t')
              | _, _ => None
              end
  end.

(* MultiLimit.TakeContext: (succeeded?, new limiters); on failure the permits taken so far are
   released again (rate tokens stay consumed). None: the roll-back panicked. *)
Fixpoint multi_take (ls : list lim) : option (bool * list lim) :=
  match ls with
  | [] => Some (true, [])
  | l :: t =>
      match try_take l with
      | None => Some (false, l :: t)
      | Some l' =>
          match multi_take t with
          | Some (true, t') => Some (true, l' :: t')
          | Some (false, t') => match release l' with Some l'' => Some (false, l'' :: t') | None => None end
          | None => None
          end
      end
  end.

Record bucket_set := { bs_new : list lim; bs_max : N; bs_m : list (key * list lim) }.

Inductive tres := TOk | TTimeout | TFull.

Fixpoint bupdate (m : list (key * list lim)) (k : key) (v : list lim) : list (key * list lim) :=
  match m with
  | [] => [(k, v)]
  | (k', v') :: t => if str_eqb k k' then (k, v) :: t else (k', v') :: bupdate t k v
  end.

(* BucketSet.TakeContext (no bucket is old enough to be reaped) *)
Definition bs_take (b : bucket_set) (k : key) : option (tres * bucket_set) :=
  if bs_max b <? N.of_nat (length (bs_m b)) then Some (TFull, b)
  else
    let cur := match alookup str_eqb k (bs_m b) with Some v => v | None => bs_new b end in
    match multi_take cur with
    | None => None
    | Some (ok, v') =>
        Some (if ok then TOk else TTimeout,
              {| bs_new := bs_new b; bs_max := bs_max b; bs_m := bupdate (bs_m b) k v' |})
    end.

(* BucketSet.Release: unknown key is ignored *)
Definition bs_release (b : bucket_set) (k : key) : option bucket_set :=
  match alookup str_eqb k (bs_m b) with
  | None => Some b
  | Some v => match multi_release v with
              | Some v' => Some {| bs_new := bs_new b; bs_max := bs_max b; bs_m := bupdate (bs_m b) k v' |}
              | None => None
              end
  end.

Record group := { g_all : list lim; g_ip : option bucket_set; g_src : option bucket_set; g_dst : option bucket_set }.

Inductive outcome := ROk | RErr | RPanic.

Definition opt_release (b : option bucket_set) (k : key) : option (option bucket_set) :=
  match b with
  | None => Some None
  | Some bs => match bs_release bs k with Some bs' => Some (Some bs') | None => None end
  end.

(* Group.TakeMsg (after the repairs) *)
Definition take_msg (g : group) (ip src : key) : outcome * group :=
  match multi_take (g_all g) with
  | None => (RPanic, g)
  | Some (false, a') => (RErr, {| g_all := a'; g_ip := g_ip g; g_src := g_src g; g_dst := g_dst g |})
  | Some (true, a') =>
      let g1 := {| g_all := a'; g_ip := g_ip g; g_src := g_src g; g_dst := g_dst g |} in
      let ip_step :=
        match g_ip g with
        | None => Some (TOk, None)
        | Some bs => match bs_take bs ip with Some (r, bs') => Some (r, Some bs') | None => None end
        end in
      match ip_step with
      | None => (RPanic, g1)
      | Some (TOk, ip') =>
          let g2 := {| g_all := a'; g_ip := ip'; g_src := g_src g; g_dst := g_dst g |} in
          let src_step :=
            match g_src g with
            | None => Some (TOk, None)
            | Some bs => match bs_take bs src with Some (r, bs') => Some (r, Some bs') | None => None end
            end in
          match src_step with
          | None => (RPanic, g2)
          | Some (TOk, src') => (ROk, {| g_all := a'; g_ip := ip'; g_src := src'; g_dst := g_dst g |})
          | Some (_, src') =>
              (* roll back: global, then ip *)
              match multi_release a', opt_release ip' ip with
              | Some a'', Some ip'' => (RErr, {| g_all := a''; g_ip := ip''; g_src := src'; g_dst := g_dst g |})
              | _, _ => (RPanic, g2)
              end
          end
      | Some (_, ip') =>
          match multi_release a' with
          | Some a'' => (RErr, {| g_all := a''; g_ip := ip'; g_src := g_src g; g_dst := g_dst g |})
          | None => (RPanic, g1)
          end
      end
  end.

(* Group.ReleaseMsg *)
Definition release_msg (g : group) (ip src : key) : outcome * group :=
  match multi_release (g_all g), opt_release (g_ip g) ip, opt_release (g_src g) src with
  | Some a', Some ip', Some src' => (ROk, {| g_all := a'; g_ip := ip'; g_src := src'; g_dst := g_dst g |})
  | _, _, _ => (RPanic, g)
  end.

Definition take_dest (g : group) (d : key) : outcome * group :=
  match g_dst g with
  | None => (ROk, g)
  | Some bs =>
      match bs_take bs d with
      | None => (RPanic, g)
      | Some (r, bs') => (match r with TOk => ROk | _ => RErr end,
                          {| g_all := g_all g; g_ip := g_ip g; g_src := g_src g; g_dst := Some bs' |})
      end
  end.
Definition release_dest (g : group) (d : key) : outcome * group :=
  match opt_release (g_dst g) d with
  | Some d' => (ROk, {| g_all := g_all g; g_ip := g_ip g; g_src := g_src g; g_dst := d' |})
  | None => (RPanic, g)
  end.

Definition refill (l : lim) : lim := match l with LRate b _ => LRate b b | _ => l end.
Definition refill_bs (b : option bucket_set) : option bucket_set :=
  match b with
  | None => None
  | Some bs => Some {| bs_new := bs_new bs; bs_max := bs_max bs;
                       bs_m := map (fun kv => (fst kv, map refill (snd kv))) (bs_m bs) |}
  end.
Definition refill_group (g : group) : group :=
  {| g_all := map refill (g_all g); g_ip := refill_bs (g_ip g); g_src := refill_bs (g_src g); g_dst := refill_bs (g_dst g) |}.

Inductive op := TakeMsg (ip src : key) | ReleaseMsg (ip src : key) | TakeDest (d : key) | ReleaseDest (d : key)
            | Refill.      (* one period of every rate limiter elapses: its bucket is full again *)
Definition step (g : group) (o : op) : outcome * group :=
  match o with
  | TakeMsg ip src => take_msg g ip src
  | ReleaseMsg ip src => release_msg g ip src
  | TakeDest d => take_dest g d
  | ReleaseDest d => release_dest g d
  | Refill => (ROk, refill_group g)
  end.
Fixpoint run (g : group) (ops : list op) : list outcome * group :=
  match ops with
  | [] => ([], g)
  | o :: t => let '(r, g') := step g o in let '(rs, gf) := run g' t in (r :: rs, gf)
  end.

(* limits.Init: the wiring of the four scopes from the configuration lines *)
Inductive scope := SAll | SIp | SSource | SDest.
Record cfgline := { cl_scope : scope; cl_lim : lim }.
Definition scope_eqb (a b : scope) : bool :=
  match a, b with SAll, SAll | SIp, SIp | SSource, SSource | SDest, SDest => true | _, _ => false end.
Definition lims_of (cfg : list cfgline) (s : scope) : list lim :=
  map cl_lim (filter (fun c => scope_eqb (cl_scope c) s) cfg).
Definition mk_bs (ls : list lim) (max : N) : option bucket_set :=
  match ls with [] => None | _ => Some {| bs_new := ls; bs_max := max; bs_m := [] |} end.
Definition init (cfg : list cfgline) (max : N) : group :=
  {| g_all := lims_of cfg SAll; g_ip := mk_bs (lims_of cfg SIp) max;
     g_src := mk_bs (lims_of cfg SSource) max; g_dst := mk_bs (lims_of cfg SDest) max |}.
