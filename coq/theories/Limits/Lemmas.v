(* Proofs about Limits/Model.v (C11). *)
From Maddy Require Import Lib.Base Limits.Model.
Local Open Scope N_scope.

(* all semaphores of one MultiLimit move in lockstep: [n] deliveries hold each of them *)
Definition lim_synced (n : N) (l : lim) : Prop :=
  match l with
  | LSem cap used => cap = 0 \/ (used = n /\ n <= cap)
  | LRate b t => t <= b
  end.
Definition synced (n : N) (ls : list lim) : Prop := Forall (lim_synced n) ls.

Lemma try_take_synced n l :
  lim_synced n l ->
  match try_take l with
  | Some l' => lim_synced (n + 1) l' /\ release l' <> None /\
               (forall l'', release l' = Some l'' -> lim_synced n l'')
  | None => True
  end.
Proof.
  destruct l as [cap used|b t]; simpl; intros H.
  - destruct (cap =? 0) eqn:E0.
    + apply N.eqb_eq in E0. subst. simpl. repeat split; auto; try discriminate.
      intros l'' E; inversion E; subst; simpl; auto.
    + destruct (used <? cap) eqn:El; [|exact I]. apply N.ltb_lt in El. apply N.eqb_neq in E0.
      destruct H as [H|[-> Hle]]; [tauto|]. simpl. rewrite (proj2 (N.eqb_neq cap 0) E0).
      assert (0 <? n + 1 = true) as -> by (apply N.ltb_lt; lia).
      repeat split; try discriminate; [right; split; [reflexivity|lia]|].
      intros l'' E; inversion E; subst. simpl. right. split; lia.
  - destruct (b =? 0); simpl.
    + repeat split; auto; try discriminate. intros l'' E; inversion E; subst; exact H.
    + destruct (0 <? t) eqn:E; [|exact I]. apply N.ltb_lt in E. simpl.
      repeat split; try discriminate; try lia. intros l'' E2; inversion E2; subst. simpl. lia.
Qed.

Lemma release_synced n l :
  lim_synced (n + 1) l -> exists l', release l = Some l' /\ lim_synced n l'.
Proof.
  destruct l as [cap used|b t]; simpl; intros H.
  - destruct (cap =? 0) eqn:E0.
    + eexists; split; [reflexivity|]. apply N.eqb_eq in E0. simpl. auto.
    + apply N.eqb_neq in E0. destruct H as [H|[-> Hle]]; [tauto|].
      assert (0 <? n + 1 = true) as -> by (apply N.ltb_lt; lia).
      eexists; split; [reflexivity|]. simpl. right. split; lia.
  - eexists; split; [reflexivity|exact H].
Qed.

Lemma multi_release_synced n ls :
  synced (n + 1) ls -> exists ls', multi_release ls = Some ls' /\ synced n ls'.
Proof.
  induction ls as [|l t IH]; intros H; simpl.
  - exists []. split; [reflexivity|constructor].
  - inversion H as [|? ? Hl Ht]; subst. destruct (release_synced n l Hl) as (l' & -> & Hl').
    destruct (IH Ht) as (t' & -> & Ht'). eexists; split; [reflexivity|constructor; auto].
Qed.

(* a take either succeeds and everybody holds one more, or fails and the roll-back restores the
   lockstep exactly; it never crashes *)
Lemma multi_take_synced n ls :
  synced n ls ->
  exists ok ls', multi_take ls = Some (ok, ls') /\ synced (if ok then n + 1 else n) ls'.
Proof.
  induction ls as [|l t IH]; intros H; simpl.
  - exists true, []. split; [reflexivity|constructor].
  - inversion H as [|? ? Hl Ht]; subst.
    pose proof (try_take_synced n l Hl) as Htt.
    destruct (try_take l) as [l'|].
    + destruct Htt as (Hl' & Hrel & Hrel').
      destruct (IH Ht) as (ok & t' & -> & Ht').
      destruct ok.
      * exists true. eexists. split; [reflexivity|constructor; auto].
      * destruct (release l') as [l''|] eqn:Er; [|tauto].
        exists false. eexists. split; [reflexivity|]. constructor; auto.
    + exists false. eexists. split; [reflexivity|]. constructor; auto.
Qed.

Lemma refill_synced n ls : synced n ls -> synced n (map refill ls).
Proof.
  induction 1 as [|l t Hl Ht IH]; simpl; constructor; auto.
  destruct l; simpl in *; auto. lia.
Qed.

(* ---------- bucket sets ---------- *)
Definition bs_inv (cnt : key -> N) (b : bucket_set) : Prop :=
  synced 0 (bs_new b) /\
  forall k, match alookup str_eqb k (bs_m b) with
            | Some v => synced (cnt k) v
            | None => cnt k = 0
            end.

Lemma str_eqb_sym' a b : str_eqb a b = str_eqb b a.
Proof.
  destruct (str_eqb a b) eqn:E1, (str_eqb b a) eqn:E2; auto.
  - apply str_eqb_eq in E1; subst. rewrite str_eqb_refl in E2. discriminate.
  - apply str_eqb_eq in E2; subst. rewrite str_eqb_refl in E1. discriminate.
Qed.

Lemma alookup_bupdate m k v k' :
  alookup str_eqb k' (bupdate m k v) = if str_eqb k' k then Some v else alookup str_eqb k' m.
Proof.
  induction m as [|[k0 v0] m IH]; simpl.
  - destruct (str_eqb k' k); reflexivity.
  - destruct (str_eqb k k0) eqn:E.
    + apply str_eqb_eq in E; subst. simpl. destruct (str_eqb k' k0); reflexivity.
    + simpl. rewrite IH. destruct (str_eqb k' k0) eqn:E2; [|reflexivity].
      apply str_eqb_eq in E2; subst. rewrite str_eqb_sym', E. reflexivity.
Qed.

Definition bump (cnt : key -> N) (k : key) (d : N -> N) : key -> N :=
  fun k' => if str_eqb k' k then d (cnt k') else cnt k'.

Lemma bs_take_inv cnt b k :
  bs_inv cnt b ->
  exists r b', bs_take b k = Some (r, b') /\
               bs_inv (match r with TOk => bump cnt k (fun n => n + 1) | _ => cnt end) b'.
Proof.
  intros [Hnew Hm]. unfold bs_take.
  destruct (bs_max b <? N.of_nat (length (bs_m b))).
  { exists TFull, b. split; [reflexivity|split; auto]. }
  set (cur := match alookup str_eqb k (bs_m b) with Some v => v | None => bs_new b end).
  assert (Hcur : synced (cnt k) cur).
  { subst cur. specialize (Hm k). destruct (alookup str_eqb k (bs_m b)); [exact Hm|]. rewrite Hm. exact Hnew. }
  destruct (multi_take_synced (cnt k) cur Hcur) as (ok & v' & -> & Hv').
  exists (if ok then TOk else TTimeout). eexists. split; [reflexivity|].
  split; [exact Hnew|]. simpl. intros k'. rewrite alookup_bupdate.
  destruct ok; unfold bump.
  - destruct (str_eqb k' k) eqn:E.
    + apply str_eqb_eq in E; subst. exact Hv'.
    + exact (Hm k').
  - destruct (str_eqb k' k) eqn:E.
    + apply str_eqb_eq in E; subst. exact Hv'.
    + exact (Hm k').
Qed.

Lemma bs_release_inv cnt b k :
  bs_inv cnt b -> 1 <= cnt k ->
  exists b', bs_release b k = Some b' /\ bs_inv (bump cnt k (fun n => n - 1)) b'.
Proof.
  intros [Hnew Hm] Hk. unfold bs_release. pose proof (Hm k) as Hmk.
  destruct (alookup str_eqb k (bs_m b)) as [v|] eqn:El; [|lia].
  replace (cnt k) with ((cnt k - 1) + 1) in Hmk by lia.
  destruct (multi_release_synced _ v Hmk) as (v' & -> & Hv').
  eexists. split; [reflexivity|]. split; [exact Hnew|]. simpl. intros k'. rewrite alookup_bupdate.
  unfold bump. destruct (str_eqb k' k) eqn:E.
  - apply str_eqb_eq in E; subst. exact Hv'.
  - exact (Hm k').
Qed.

Lemma bs_refill_inv cnt b : bs_inv cnt b ->
  bs_inv cnt {| bs_new := bs_new b; bs_max := bs_max b;
                bs_m := map (fun kv => (fst kv, map refill (snd kv))) (bs_m b) |}.
Proof.
  intros [Hnew Hm]. split; [exact Hnew|]. simpl. intros k. specialize (Hm k).
  induction (bs_m b) as [|[k0 v0] m IH]; simpl in *; [exact Hm|].
  destruct (str_eqb k k0); [apply refill_synced; exact Hm|apply IH; exact Hm].
Qed.

(* the bound: whoever holds a permit is counted, and the count never exceeds a concurrency limit *)
Lemma synced_bound n ls cap used : synced n ls -> In (LSem cap used) ls -> cap <> 0 -> used = n /\ n <= cap.
Proof.
  intros H Hin Hc. unfold synced in H. rewrite Forall_forall in H. specialize (H _ Hin). simpl in H.
  destruct H; tauto.
Qed.

(* ---------- the group and the deliveries that hold permits ---------- *)
Definition cnt_by {A} (f : A -> key) (l : list A) (k : key) : N :=
  N.of_nat (length (filter (fun x => str_eqb (f x) k) l)).

Definition opt_inv (cnt : key -> N) (b : option bucket_set) : Prop :=
  match b with Some bs => bs_inv cnt bs | None => True end.

Definition ginv (g : group) (msgs : list (key * key)) (dsts : list key) : Prop :=
  synced (N.of_nat (length msgs)) (g_all g) /\
  opt_inv (cnt_by fst msgs) (g_ip g) /\ opt_inv (cnt_by snd msgs) (g_src g) /\
  opt_inv (cnt_by (fun d => d) dsts) (g_dst g).

Lemma bs_inv_ext c1 c2 b : (forall k, c1 k = c2 k) -> bs_inv c1 b -> bs_inv c2 b.
Proof.
  intros E [Hn Hm]. split; [exact Hn|]. intros k. specialize (Hm k). rewrite <- E.
  destruct (alookup str_eqb k (bs_m b)); exact Hm.
Qed.
Lemma opt_inv_ext c1 c2 b : (forall k, c1 k = c2 k) -> opt_inv c1 b -> opt_inv c2 b.
Proof. destruct b; simpl; [apply bs_inv_ext|auto]. Qed.

Lemma cnt_by_cons {A} (f : A -> key) x l k :
  cnt_by f (x :: l) k = bump (cnt_by f l) (f x) (fun n => n + 1) k.
Proof.
  unfold cnt_by, bump. cbn [filter]. rewrite (str_eqb_sym' k (f x)).
  destruct (str_eqb (f x) k); cbn [length]; lia.
Qed.

Fixpoint remove_first {A} (eqb : A -> A -> bool) (x : A) (l : list A) : option (list A) :=
  match l with
  | [] => None
  | y :: t => if eqb x y then Some t else option_map (cons y) (remove_first eqb x t)
  end.

Lemma cnt_by_remove {A} (eqb : A -> A -> bool) (Heq : forall a b, eqb a b = true -> a = b)
      (f : A -> key) x l l' k :
  remove_first eqb x l = Some l' ->
  cnt_by f l' k = bump (cnt_by f l) (f x) (fun n => n - 1) k /\ 1 <= cnt_by f l (f x) /\
  S (length l') = length l.
Proof.
  revert l'. induction l as [|y t IH]; intros l' H; simpl in H; [discriminate|].
  destruct (eqb x y) eqn:E.
  - apply Heq in E. subst y. inversion H; subst. unfold cnt_by, bump. cbn [filter].
    rewrite str_eqb_refl. rewrite (str_eqb_sym' k (f x)).
    destruct (str_eqb (f x) k); cbn [length]; repeat split; lia.
  - destruct (remove_first eqb x t) as [t'|] eqn:Er; [|discriminate]. inversion H; subst.
    destruct (IH t' eq_refl) as (H1 & H2 & H3). unfold cnt_by, bump in *. cbn [filter].
    rewrite (str_eqb_sym' k (f x)) in *.
    destruct (str_eqb (f x) k) eqn:Ex.
    + apply str_eqb_eq in Ex. subst k.
      destruct (str_eqb (f y) (f x)) eqn:Eyx; cbn [length] in *; repeat split; try lia.
    + destruct (str_eqb (f y) k) eqn:Ey, (str_eqb (f y) (f x)) eqn:Eyx; cbn [length] in *;
        repeat split; try lia.
Qed.

Definition kk_eqb (a b : key * key) : bool := str_eqb (fst a) (fst b) && str_eqb (snd a) (snd b).
Lemma kk_eqb_eq a b : kk_eqb a b = true -> a = b.
Proof.
  destruct a, b. unfold kk_eqb. simpl. rewrite andb_true_iff, !str_eqb_eq. intros [-> ->]. reflexivity.
Qed.
Lemma str_eqb_eq' a b : str_eqb a b = true -> a = b.
Proof. apply str_eqb_eq. Qed.

Lemma opt_take_inv cnt b k :
  opt_inv cnt b ->
  match b with
  | None => True
  | Some bs => exists r bs', bs_take bs k = Some (r, bs') /\
                             bs_inv (match r with TOk => bump cnt k (fun n => n + 1) | _ => cnt end) bs'
  end.
Proof. destruct b; simpl; [apply bs_take_inv|auto]. Qed.

Lemma opt_release_inv cnt b k :
  opt_inv cnt b -> 1 <= cnt k ->
  exists b', opt_release b k = Some b' /\ opt_inv (bump cnt k (fun n => n - 1)) b'.
Proof.
  destruct b as [bs|]; simpl; intros H Hk.
  - destruct (bs_release_inv cnt bs k H Hk) as (bs' & -> & Hi). eexists; split; [reflexivity|exact Hi].
  - eexists; split; [reflexivity|exact I].
Qed.

(* TakeMsg never crashes; on success the delivery is one more holder in each of its three scopes,
   on failure nothing at all is held for it *)
Lemma take_msg_inv g msgs dsts ip src :
  ginv g msgs dsts ->
  let '(r, g') := take_msg g ip src in
  r <> RPanic /\
  ginv g' (match r with ROk => (ip, src) :: msgs | _ => msgs end) dsts.
Proof.
  intros (Ha & Hi & Hs & Hd). unfold take_msg.
  destruct (multi_take_synced _ _ Ha) as (ok & a' & -> & Ha').
  destruct ok; [|split; [discriminate|repeat split; auto]].
  assert (Ha1 : synced (N.of_nat (length ((ip, src) :: msgs))) a').
  { cbn [length]. replace (N.of_nat (S (length msgs))) with (N.of_nat (length msgs) + 1) by lia. exact Ha'. }
  assert (Hci : forall bs, bs_inv (bump (cnt_by fst msgs) ip (fun n => n + 1)) bs ->
                           bs_inv (cnt_by fst ((ip, src) :: msgs)) bs).
  { intros bs Hb. eapply bs_inv_ext; [|exact Hb]. intros k. symmetry. exact (cnt_by_cons fst (ip, src) msgs k). }
  assert (Hcs : forall bs, bs_inv (bump (cnt_by snd msgs) src (fun n => n + 1)) bs ->
                           bs_inv (cnt_by snd ((ip, src) :: msgs)) bs).
  { intros bs Hb. eapply bs_inv_ext; [|exact Hb]. intros k. symmetry. exact (cnt_by_cons snd (ip, src) msgs k). }
  assert (Hback : forall bs, bs_inv (bump (cnt_by fst msgs) ip (fun n => n + 1)) bs ->
            exists bs', bs_release bs ip = Some bs' /\ bs_inv (cnt_by fst msgs) bs').
  { intros bs Hb. destruct (bs_release_inv _ bs ip Hb) as (bs' & Hr & Hb').
    { unfold bump. rewrite str_eqb_refl. lia. }
    exists bs'. split; [exact Hr|]. eapply bs_inv_ext; [|exact Hb']. intros k. unfold bump.
    destruct (str_eqb k ip); lia. }
  pose proof (opt_take_inv _ (g_ip g) ip Hi) as Hti.
  pose proof (opt_take_inv _ (g_src g) src Hs) as Hts.
  destruct (multi_release_synced _ _ Ha') as (a'' & Era & Ha'').
  destruct (g_ip g) as [bsi|] eqn:Egi.
  - destruct Hti as (ri & bsi' & -> & Hbi).
    destruct ri.
    + destruct (g_src g) as [bss|] eqn:Egs.
      * destruct Hts as (rs & bss' & -> & Hbs).
        destruct rs.
        -- split; [discriminate|]. split; [exact Ha1|]. split; [apply Hci, Hbi|]. split; [apply Hcs, Hbs|exact Hd].
        -- rewrite Era. destruct (Hback _ Hbi) as (bsi'' & Hr & Hbi''). cbn [opt_release]. rewrite Hr.
           split; [discriminate|]. split; [exact Ha''|]. split; [exact Hbi''|]. split; [exact Hbs|exact Hd].
        -- rewrite Era. destruct (Hback _ Hbi) as (bsi'' & Hr & Hbi''). cbn [opt_release]. rewrite Hr.
           split; [discriminate|]. split; [exact Ha''|]. split; [exact Hbi''|]. split; [exact Hbs|exact Hd].
      * split; [discriminate|]. split; [exact Ha1|]. split; [apply Hci, Hbi|]. split; [exact I|exact Hd].
    + rewrite Era. split; [discriminate|]. split; [exact Ha''|]. split; [exact Hbi|]. split; [exact Hs|exact Hd].
    + rewrite Era. split; [discriminate|]. split; [exact Ha''|]. split; [exact Hbi|]. split; [exact Hs|exact Hd].
  - destruct (g_src g) as [bss|] eqn:Egs.
    + destruct Hts as (rs & bss' & -> & Hbs).
      destruct rs.
      * split; [discriminate|]. split; [exact Ha1|]. split; [exact I|]. split; [apply Hcs, Hbs|exact Hd].
      * rewrite Era. cbn [opt_release]. split; [discriminate|]. split; [exact Ha''|]. split; [exact I|]. split; [exact Hbs|exact Hd].
      * rewrite Era. cbn [opt_release]. split; [discriminate|]. split; [exact Ha''|]. split; [exact I|]. split; [exact Hbs|exact Hd].
    + split; [discriminate|]. split; [exact Ha1|]. split; [exact I|]. split; [exact I|exact Hd].
Qed.

(* returning the permits of a delivery that holds them never crashes and removes exactly it *)
Lemma release_msg_inv g msgs dsts ip src msgs' :
  ginv g msgs dsts -> remove_first kk_eqb (ip, src) msgs = Some msgs' ->
  let '(r, g') := release_msg g ip src in r = ROk /\ ginv g' msgs' dsts.
Proof.
  intros (Ha & Hi & Hs & Hd) Hr. unfold release_msg.
  destruct (cnt_by_remove kk_eqb kk_eqb_eq fst (ip, src) msgs msgs' ip Hr) as (_ & Hci & Hlen).
  destruct (cnt_by_remove kk_eqb kk_eqb_eq snd (ip, src) msgs msgs' src Hr) as (_ & Hcs & _).
  simpl in Hci, Hcs.
  replace (N.of_nat (length msgs)) with (N.of_nat (length msgs') + 1) in Ha by lia.
  destruct (multi_release_synced _ _ Ha) as (a' & -> & Ha').
  destruct (opt_release_inv _ (g_ip g) ip Hi Hci) as (ip' & -> & Hi').
  destruct (opt_release_inv _ (g_src g) src Hs Hcs) as (src' & -> & Hs').
  split; [reflexivity|]. repeat split; simpl; auto.
  - eapply opt_inv_ext; [|exact Hi']. intros k.
    destruct (cnt_by_remove kk_eqb kk_eqb_eq fst (ip, src) msgs msgs' k Hr) as (E & _ & _). symmetry. exact E.
  - eapply opt_inv_ext; [|exact Hs']. intros k.
    destruct (cnt_by_remove kk_eqb kk_eqb_eq snd (ip, src) msgs msgs' k Hr) as (E & _ & _). symmetry. exact E.
Qed.

Lemma take_dest_inv g msgs dsts d :
  ginv g msgs dsts ->
  let '(r, g') := take_dest g d in
  r <> RPanic /\ ginv g' msgs (match r with ROk => d :: dsts | _ => dsts end).
Proof.
  intros (Ha & Hi & Hs & Hd). unfold take_dest.
  pose proof (opt_take_inv _ (g_dst g) d Hd) as Ht.
  destruct (g_dst g) as [bs|] eqn:Eg.
  - destruct Ht as (r & bs' & -> & Hb).
    destruct r; (split; [discriminate|]); (split; [exact Ha|]); (split; [exact Hi|]); (split; [exact Hs|]).
    + cbn [g_dst opt_inv]. eapply bs_inv_ext; [|exact Hb]. intros k. symmetry. exact (cnt_by_cons (fun x => x) d dsts k).
    + exact Hb.
    + exact Hb.
  - split; [discriminate|]. split; [exact Ha|]. split; [exact Hi|]. split; [exact Hs|]. rewrite Eg. exact I.
Qed.

Lemma release_dest_inv g msgs dsts d dsts' :
  ginv g msgs dsts -> remove_first str_eqb d dsts = Some dsts' ->
  let '(r, g') := release_dest g d in r = ROk /\ ginv g' msgs dsts'.
Proof.
  intros (Ha & Hi & Hs & Hd) Hr. unfold release_dest.
  destruct (cnt_by_remove str_eqb str_eqb_eq' (fun x => x) d dsts dsts' d Hr) as (_ & Hc & _).
  destruct (opt_release_inv _ (g_dst g) d Hd Hc) as (d' & -> & Hd').
  split; [reflexivity|]. repeat split; simpl; auto.
  eapply opt_inv_ext; [|exact Hd']. intros k.
  destruct (cnt_by_remove str_eqb str_eqb_eq' (fun x => x) d dsts dsts' k Hr) as (E & _ & _). symmetry. exact E.
Qed.

Lemma refill_inv g msgs dsts : ginv g msgs dsts -> ginv (refill_group g) msgs dsts.
Proof.
  intros (Ha & Hi & Hs & Hd). unfold refill_group. repeat split; simpl.
  - apply refill_synced, Ha.
  - destruct (g_ip g); simpl in *; [apply bs_refill_inv, Hi|exact I].
  - destruct (g_src g); simpl in *; [apply bs_refill_inv, Hs|exact I].
  - destruct (g_dst g); simpl in *; [apply bs_refill_inv, Hd|exact I].
Qed.

Lemma mk_bs_inv {A} (f : A -> key) ls max : synced 0 ls -> opt_inv (cnt_by f []) (mk_bs ls max).
Proof.
  intros H. unfold mk_bs. destruct ls as [|l t] eqn:E; [exact I|]. simpl. split; [exact H|].
  intros k. reflexivity.
Qed.

Lemma init_inv cfg max :
  Forall (fun c => lim_synced 0 (cl_lim c)) cfg -> ginv (init cfg max) [] [].
Proof.
  intros H.
  assert (Hs : forall s, synced 0 (lims_of cfg s)).
  { intros s. unfold lims_of, synced. rewrite Forall_forall in *. intros l Hl.
    apply in_map_iff in Hl as (c & <- & Hc). apply filter_In in Hc as [Hc _]. apply H, Hc. }
  unfold init, ginv. cbn [g_all g_ip g_src g_dst length].
  split; [apply Hs|]. split; [apply mk_bs_inv, Hs|]. split; [apply mk_bs_inv, Hs|apply mk_bs_inv, Hs].
Qed.

(* ---------- reachable states of well-bracketed histories ---------- *)
(* any number of deliveries, any interleaving of their takes and releases; a release is only ever
   issued by a delivery that holds the permit (that is what the endpoint and the remote target do) *)
Inductive reach (cfg : list cfgline) (max : N) : group -> list (key * key) -> list key -> Prop :=
| R_init : reach cfg max (init cfg max) [] []
| R_take_msg g m d ip src :
    reach cfg max g m d ->
    reach cfg max (snd (take_msg g ip src))
          (match fst (take_msg g ip src) with ROk => (ip, src) :: m | _ => m end) d
| R_release_msg g m d ip src m' :
    reach cfg max g m d -> remove_first kk_eqb (ip, src) m = Some m' ->
    reach cfg max (snd (release_msg g ip src)) m' d
| R_take_dest g m d x :
    reach cfg max g m d ->
    reach cfg max (snd (take_dest g x)) m (match fst (take_dest g x) with ROk => x :: d | _ => d end)
| R_release_dest g m d x d' :
    reach cfg max g m d -> remove_first str_eqb x d = Some d' ->
    reach cfg max (snd (release_dest g x)) m d'
| R_refill g m d : reach cfg max g m d -> reach cfg max (refill_group g) m d.

Definition cfg_ok (cfg : list cfgline) : Prop := Forall (fun c => lim_synced 0 (cl_lim c)) cfg.

Lemma reach_inv cfg max g m d : cfg_ok cfg -> reach cfg max g m d -> ginv g m d.
Proof.
  intros Hc H. induction H.
  - apply init_inv, Hc.
  - pose proof (take_msg_inv g m d ip src IHreach) as T. destruct (take_msg g ip src) as [r g']. apply T.
  - pose proof (release_msg_inv g m d ip src m' IHreach H0) as T. destruct (release_msg g ip src) as [r g']. apply T.
  - pose proof (take_dest_inv g m d x IHreach) as T. destruct (take_dest g x) as [r g']. apply T.
  - pose proof (release_dest_inv g m d x d' IHreach H0) as T. destruct (release_dest g x) as [r g']. apply T.
  - apply refill_inv, IHreach.
Qed.

(* no operation of a well-bracketed history crashes *)
Lemma reach_no_panic cfg max g m d :
  cfg_ok cfg -> reach cfg max g m d ->
  (forall ip src, fst (take_msg g ip src) <> RPanic) /\
  (forall x, fst (take_dest g x) <> RPanic) /\
  (forall ip src m', remove_first kk_eqb (ip, src) m = Some m' -> fst (release_msg g ip src) = ROk) /\
  (forall x d', remove_first str_eqb x d = Some d' -> fst (release_dest g x) = ROk).
Proof.
  intros Hc H. pose proof (reach_inv cfg max g m d Hc H) as Hi. repeat split.
  - intros ip src. pose proof (take_msg_inv g m d ip src Hi) as T. destruct (take_msg g ip src). apply T.
  - intros x. pose proof (take_dest_inv g m d x Hi) as T. destruct (take_dest g x). apply T.
  - intros ip src m' Hr. pose proof (release_msg_inv g m d ip src m' Hi Hr) as T. destruct (release_msg g ip src). apply T.
  - intros x d' Hr. pose proof (release_dest_inv g m d x d' Hi Hr) as T. destruct (release_dest g x). apply T.
Qed.

(* the bound: the deliveries holding a permit in a scope (for a key) never outnumber a
   concurrency limit that is in force there *)
Lemma reach_bound cfg max g m d :
  cfg_ok cfg -> reach cfg max g m d ->
  (forall cap used, In (LSem cap used) (g_all g) -> cap <> 0 -> N.of_nat (length m) <= cap) /\
  (forall bs k v cap used, g_ip g = Some bs -> alookup str_eqb k (bs_m bs) = Some v ->
                           In (LSem cap used) v -> cap <> 0 -> cnt_by fst m k <= cap) /\
  (forall bs k v cap used, g_src g = Some bs -> alookup str_eqb k (bs_m bs) = Some v ->
                           In (LSem cap used) v -> cap <> 0 -> cnt_by snd m k <= cap) /\
  (forall bs k v cap used, g_dst g = Some bs -> alookup str_eqb k (bs_m bs) = Some v ->
                           In (LSem cap used) v -> cap <> 0 -> cnt_by (fun x => x) d k <= cap).
Proof.
  intros Hc H. destruct (reach_inv cfg max g m d Hc H) as (Ha & Hi & Hs & Hd). repeat split.
  - intros cap used Hin Hcap. apply (synced_bound _ _ cap used Ha Hin Hcap).
  - intros bs k v cap used E El Hin Hcap. rewrite E in Hi. destruct Hi as [_ Hm]. specialize (Hm k). rewrite El in Hm.
    apply (synced_bound _ _ cap used Hm Hin Hcap).
  - intros bs k v cap used E El Hin Hcap. rewrite E in Hs. destruct Hs as [_ Hm]. specialize (Hm k). rewrite El in Hm.
    apply (synced_bound _ _ cap used Hm Hin Hcap).
  - intros bs k v cap used E El Hin Hcap. rewrite E in Hd. destruct Hd as [_ Hm]. specialize (Hm k). rewrite El in Hm.
    apply (synced_bound _ _ cap used Hm Hin Hcap).
Qed.

(* after quiescence every semaphore is completely free again *)
Lemma quiescent_free cfg max g :
  cfg_ok cfg -> reach cfg max g [] [] ->
  (forall cap used, In (LSem cap used) (g_all g) -> cap <> 0 -> used = 0) /\
  (forall bs k v cap used, (g_ip g = Some bs \/ g_src g = Some bs \/ g_dst g = Some bs) ->
                           alookup str_eqb k (bs_m bs) = Some v -> In (LSem cap used) v -> cap <> 0 -> used = 0).
Proof.
  intros Hc H. destruct (reach_inv cfg max g [] [] Hc H) as (Ha & Hi & Hs & Hd). split.
  - intros cap used Hin Hcap. destruct (synced_bound _ _ cap used Ha Hin Hcap) as [E _]. exact E.
  - intros bs k v cap used [E|[E|E]] El Hin Hcap.
    + rewrite E in Hi. destruct Hi as [_ Hm]. specialize (Hm k). rewrite El in Hm.
      destruct (synced_bound _ _ cap used Hm Hin Hcap) as [Eu _]. exact Eu.
    + rewrite E in Hs. destruct Hs as [_ Hm]. specialize (Hm k). rewrite El in Hm.
      destruct (synced_bound _ _ cap used Hm Hin Hcap) as [Eu _]. exact Eu.
    + rewrite E in Hd. destruct Hd as [_ Hm]. specialize (Hm k). rewrite El in Hm.
      destruct (synced_bound _ _ cap used Hm Hin Hcap) as [Eu _]. exact Eu.
Qed.
