(* C11 correspondence and monitor for internal/limits. *)
From Maddy Require Export Lib.Base Limits.Model.
Local Open Scope N_scope.

Record case := {
  c_cfg : list cfgline; c_max : N;        (* configuration lines, bucket-table capacity *)
  c_ops : list op;
  c_res : list outcome                    (* observed, one per operation *)
}.

Definition outcome_eqb (a b : outcome) : bool :=
  match a, b with ROk, ROk | RErr, RErr | RPanic, RPanic => true | _, _ => false end.

Definition kk_eqb0 (a b : key * key) : bool := str_eqb (fst a) (fst b) && str_eqb (snd a) (snd b).
Fixpoint remove_one0 {A} (eqb : A -> A -> bool) (x : A) (l : list A) : option (list A) :=
  match l with
  | [] => None
  | y :: t => if eqb x y then Some t else option_map (cons y) (remove_one0 eqb x t)
  end.
(* the length of the well-formed prefix of an observed history: up to the first release of a
   permit that is not held.  The property (and every theorem: [reach] lets only holders release)
   is about well-formed use; what the limiters do after a caller released what it did not hold
   is not specified, and is compared no further *)
Fixpoint wf_prefix (ops : list op) (res : list outcome) (msgs : list (key * key)) (dsts : list key) : nat :=
  match ops, res with
  | o :: ops', r :: res' =>
      match o with
      | TakeMsg ip src => S (wf_prefix ops' res' (match r with ROk => (ip, src) :: msgs | _ => msgs end) dsts)
      | TakeDest d => S (wf_prefix ops' res' msgs (match r with ROk => d :: dsts | _ => dsts end))
      | ReleaseMsg ip src =>
          match remove_one0 kk_eqb0 (ip, src) msgs with Some m => S (wf_prefix ops' res' m dsts) | None => O end
      | ReleaseDest d =>
          match remove_one0 str_eqb d dsts with Some m => S (wf_prefix ops' res' msgs m) | None => O end
      | _ => S (wf_prefix ops' res' msgs dsts)
      end
  | _, _ => O
  end.

(* every release of the history is by a holder *)
Fixpoint well_formed (ops : list op) (res : list outcome) (msgs : list (key * key)) (dsts : list key) : bool :=
  match ops, res with
  | o :: ops', r :: res' =>
      match o with
      | TakeMsg ip src => well_formed ops' res' (match r with ROk => (ip, src) :: msgs | _ => msgs end) dsts
      | TakeDest d => well_formed ops' res' msgs (match r with ROk => d :: dsts | _ => dsts end)
      | ReleaseMsg ip src =>
          match remove_one0 kk_eqb0 (ip, src) msgs with Some m => well_formed ops' res' m dsts | None => false end
      | ReleaseDest d =>
          match remove_one0 str_eqb d dsts with Some m => well_formed ops' res' msgs m | None => false end
      | _ => well_formed ops' res' msgs dsts
      end
  | _, _ => true
  end.
(* on such a history the whole of it is compared *)
Lemma wf_prefix_all ops : forall res msgs dsts,
  length ops = length res -> well_formed ops res msgs dsts = true -> wf_prefix ops res msgs dsts = length ops.
Proof.
  induction ops as [|o ops IH]; intros res msgs dsts Hl Hw; [reflexivity|].
  destruct res as [|r res]; [discriminate|]. cbn [length] in Hl. injection Hl as Hl.
  cbn [wf_prefix well_formed length] in *. destruct o as [ip src|ip src|d|d|].
  - f_equal. apply IH; assumption.
  - destruct (remove_one0 kk_eqb0 (ip, src) msgs); [|discriminate]. f_equal. apply IH; assumption.
  - f_equal. apply IH; assumption.
  - destruct (remove_one0 str_eqb d dsts); [|discriminate]. f_equal. apply IH; assumption.
  - f_equal. apply IH; assumption.
Qed.

Definition agrees (c : case) : bool :=
  let k := wf_prefix (c_ops c) (c_res c) [] [] in
  Nat.eqb (length (c_ops c)) (length (c_res c)) &&
  list_eqb outcome_eqb (firstn k (fst (run (init (c_cfg c) (c_max c)) (c_ops c)))) (firstn k (c_res c)).
Definition mismatches (cs : list case) : list N := find_idx (fun c => negb (agrees c)) cs.

(* ---- the property on the observed outcomes ---- *)
(* holders: deliveries that took permits successfully and have not released them yet *)
Fixpoint remove_one {A} (eqb : A -> A -> bool) (x : A) (l : list A) : option (list A) :=
  match l with
  | [] => None
  | y :: t => if eqb x y then Some t else option_map (cons y) (remove_one eqb x t)
  end.
Definition kk_eqb (a b : key * key) : bool := str_eqb (fst a) (fst b) && str_eqb (snd a) (snd b).

Definition sem_caps (cfg : list cfgline) (s : scope) : list N :=
  flat_map (fun l => match l with LSem cap _ => if cap =? 0 then [] else [cap] | _ => [] end) (lims_of cfg s).
Definition min_cap (caps : list N) : option N :=
  match caps with [] => None | c :: t => Some (fold_left N.min t c) end.

(* walk the observed history: track holders; a successful take beyond a concurrency limit, a
   crash, or a refused release of a held permit are violations.  Returns clause numbers. *)
Fixpoint walk (cfg : list cfgline) (ops : list op) (res : list outcome)
         (msgs : list (key * key)) (dsts : list key) : list N :=
  match ops, res with
  | o :: ops', r :: res' =>
      match o, r with
      | TakeMsg ip src, ROk =>
          let msgs' := (ip, src) :: msgs in
          let over (caps : option N) (n : nat) := match caps with Some c => c <? N.of_nat n | None => false end in
          (if over (min_cap (sem_caps cfg SAll)) (length msgs')
              || over (min_cap (sem_caps cfg SIp)) (length (filter (fun m => str_eqb (fst m) ip) msgs'))
              || over (min_cap (sem_caps cfg SSource)) (length (filter (fun m => str_eqb (snd m) src) msgs'))
           then [1] else []) ++ walk cfg ops' res' msgs' dsts
      | TakeDest d, ROk =>
          let dsts' := d :: dsts in
          (match min_cap (sem_caps cfg SDest) with
           | Some c => if c <? N.of_nat (length (filter (str_eqb d) dsts')) then [1] else []
           | None => [] end) ++ walk cfg ops' res' msgs dsts'
      | ReleaseMsg ip src, ROk =>
          (* a release of something that is not held makes the history ill-formed: nothing is
             claimed about what follows *)
          match remove_one kk_eqb (ip, src) msgs with Some m => walk cfg ops' res' m dsts | None => [] end
      | ReleaseDest d, ROk =>
          match remove_one str_eqb d dsts with Some m => walk cfg ops' res' msgs m | None => [] end
      | ReleaseMsg ip src, RPanic =>
          (* releasing what is held must not crash *)
          (match remove_one kk_eqb (ip, src) msgs with Some _ => [2] | None => [] end) ++ walk cfg ops' res' msgs dsts
      | ReleaseDest d, RPanic =>
          (match remove_one str_eqb d dsts with Some _ => [2] | None => [] end) ++ walk cfg ops' res' msgs dsts
      | (TakeMsg _ _ | TakeDest _), RPanic => [3] ++ walk cfg ops' res' msgs dsts
      | _, _ => walk cfg ops' res' msgs dsts
      end
  | _, _ => []
  end.

(* after quiescence (nobody holds anything) the full concurrency is available again: the tail of
   the history is a probe of takes on a fresh key pattern; checked through the model equality and,
   independently, here: with no holders a take may only fail for rate limits or a full table *)
Definition has_rate (cfg : list cfgline) : bool :=
  existsb (fun c => match cl_lim c with LRate b _ => negb (b =? 0) | _ => false end) cfg.

Definition rates_nonzero (cfg : list cfgline) : bool :=
  forallb (fun c => match cl_lim c with LRate b _ => negb (b =? 0) | _ => true end) cfg.

(* [refilled]: every rate bucket is full (a period has just elapsed and nothing was taken since) *)
Fixpoint walk_quiescent (cfg : list cfgline) (maxb : N) (ops : list op) (res : list outcome)
         (msgs : list (key * key)) (dsts : list key) (keys : list key) (refilled : bool) : list N :=
  match ops, res with
  | o :: ops', r :: res' =>
      let keys' := match o with
                   | TakeMsg ip src | ReleaseMsg ip src => ip :: src :: keys
                   | TakeDest d | ReleaseDest d => d :: keys
                   | Refill => keys end in
      let few_keys := N.of_nat (length keys') <? maxb in
      match o, r with
      | Refill, _ => walk_quiescent cfg maxb ops' res' msgs dsts keys' true
      | TakeMsg ip src, ROk => walk_quiescent cfg maxb ops' res' ((ip, src) :: msgs) dsts keys' false
      | TakeDest d, ROk => walk_quiescent cfg maxb ops' res' msgs (d :: dsts) keys' false
      | ReleaseMsg ip src, ROk =>
          match remove_one kk_eqb (ip, src) msgs with Some m => walk_quiescent cfg maxb ops' res' m dsts keys' refilled | None => [] end
      | ReleaseDest d, ROk =>
          match remove_one str_eqb d dsts with Some m => walk_quiescent cfg maxb ops' res' msgs m keys' refilled | None => [] end
      | (TakeMsg _ _ | TakeDest _), RErr =>
          (match msgs, dsts with
           | [], [] => if (negb (has_rate cfg) || (refilled && rates_nonzero cfg)) && few_keys then [4] else []
           | _, _ => [] end) ++ walk_quiescent cfg maxb ops' res' msgs dsts keys' false
      | _, _ => walk_quiescent cfg maxb ops' res' msgs dsts keys' refilled
      end
  | _, _ => []
  end.

Definition dedup_N (l : list N) : list N :=
  fold_right (fun x acc => if existsb (N.eqb x) acc then acc else x :: acc) [] l.
Definition monitor (c : case) : list N :=
  dedup_N (walk (c_cfg c) (c_ops c) (c_res c) [] []
           ++ walk_quiescent (c_cfg c) (c_max c) (c_ops c) (c_res c) [] [] [] false).
Definition monitor_failures (cs : list case) : list (N * list N) :=
  let fix go (i : N) (l : list case) :=
    match l with
    | [] => []
    | c :: t => match monitor c with [] => go (N.succ i) t | cl => (i, cl) :: go (N.succ i) t end
    end in go 0 cs.

Definition tag (c : case) : N :=
  N.of_nat (length (c_cfg c)) + 8 * N.min 15 (N.of_nat (length (c_ops c)))
  + (if existsb (outcome_eqb RErr) (c_res c) then 128 else 0)
  + (if existsb (outcome_eqb RPanic) (c_res c) then 256 else 0).
Definition tags (cs : list case) : list N := map tag cs.
