(* C11, endpoint stream: the sessions of the C03 harness (real SMTP/LMTP endpoint with limits
   configured), looked at for one thing only - every permit taken for a transaction is back when the
   session has ended, however the transaction ended. *)
From Maddy Require Export Lib.Base Session.Model Session.Lemmas Session.Corr.
Local Open Scope N_scope.

Definition permits_agree (c : case) : bool :=
  let '(s, _) := run (c_cfg c) st0 (c_cmds c) in N.of_nat (length (s_permits s)) =? c_leaks c.
Definition mismatches (cs : list case) : list N := find_idx (fun c => negb (permits_agree c)) cs.

Definition monitor (c : case) : list N := if c_leaks c =? 0 then [] else [6].
Definition monitor_failures (cs : list case) : list (N * list N) :=
  let fix go (i : N) (l : list case) :=
    match l with
    | [] => []
    | c :: t => match monitor c with [] => go (N.succ i) t | cl => (i, cl) :: go (N.succ i) t end
    end in go 0%N cs.
Definition tags (cs : list case) : list N := Session.Corr.tags cs.
