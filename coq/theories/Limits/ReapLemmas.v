(* C11, the reaper: in every state reachable by takes, releases by holders and idle periods, the
   permits out for a key are exactly the users of its bucket, at most the limit - so the reaper never
   drops a bucket with permits out, a taker never gets a dropped bucket, and a holder's release never
   crashes.  Lemmas; the statements are in Props/C11.v. *)
From Maddy Require Import Lib.Base Limits.Reap.
From Coq Require Import Lia.
Local Open Scope N_scope.

Definition users_of (m : rtable) (k : str) : N :=
  match alookup str_eqb k m with Some b => rb_users b | None => 0 end.

Lemma str_eqb_sym a b : str_eqb a b = str_eqb b a.
Proof.
  destruct (str_eqb a b) eqn:E1, (str_eqb b a) eqn:E2; try reflexivity.
  - apply str_eqb_eq in E1. subst. rewrite str_eqb_refl in E2. discriminate.
  - apply str_eqb_eq in E2. subst. rewrite str_eqb_refl in E1. discriminate.
Qed.

Lemma alookup_rset m k b q :
  alookup str_eqb q (rset m k b) = if str_eqb q k then Some b else alookup str_eqb q m.
Proof.
  induction m as [|[k' b'] t IH]; cbn.
  - destruct (str_eqb q k); reflexivity.
  - destruct (str_eqb k k') eqn:E; cbn.
    + apply str_eqb_eq in E. subst k'. destruct (str_eqb q k); reflexivity.
    + destruct (str_eqb q k') eqn:E2.
      * apply str_eqb_eq in E2. subst k'. rewrite str_eqb_sym, E. reflexivity.
      * exact IH.
Qed.
Lemma in_keys_rset m k b x : In x (map fst (rset m k b)) <-> x = k \/ In x (map fst m).
Proof.
  induction m as [|[k' b'] t IH]; cbn.
  - intuition congruence.
  - destruct (str_eqb k k') eqn:E; cbn.
    + apply str_eqb_eq in E. subst k'. intuition congruence.
    + rewrite IH. intuition congruence.
Qed.
Lemma nodup_rset m k b : NoDup (map fst m) -> NoDup (map fst (rset m k b)).
Proof.
  induction m as [|[k' b'] t IH]; cbn; intro H.
  - constructor; [intros []|constructor].
  - inversion H as [|? ? Hn Ht]; subst. destruct (str_eqb k k') eqn:E; cbn.
    + apply str_eqb_eq in E. subst k'. constructor; assumption.
    + constructor; [|apply IH; exact Ht]. rewrite in_keys_rset. intros [->|Hin]; [|contradiction].
      rewrite str_eqb_refl in E. discriminate.
Qed.
Lemma alookup_notin {B} (m : list (str * B)) k : ~ In k (map fst m) -> alookup str_eqb k m = None.
Proof.
  induction m as [|[k' b'] t IH]; cbn; intro H; [reflexivity|].
  destruct (str_eqb k k') eqn:E; [apply str_eqb_eq in E; subst; tauto|]. apply IH. tauto.
Qed.
Lemma in_keys_filter (p : str * rbucket -> bool) m x : In x (map fst (filter p m)) -> In x (map fst m).
Proof.
  induction m as [|e t IH]; cbn; [tauto|]. destruct (p e); cbn; tauto.
Qed.
Lemma nodup_filter (p : str * rbucket -> bool) m : NoDup (map fst m) -> NoDup (map fst (filter p m)).
Proof.
  induction m as [|e t IH]; cbn; intro H; [constructor|]. inversion H; subst.
  destruct (p e); cbn; [constructor|]; auto. intro Hin. apply in_keys_filter in Hin. contradiction.
Qed.
(* the reaper changes the users of no key: what it drops has none *)
Lemma users_filter_keep m k : NoDup (map fst m) -> users_of (filter keep m) k = users_of m k.
Proof.
  unfold users_of. induction m as [|[k' b] t IH]; cbn; intro H; [reflexivity|]. inversion H; subst.
  destruct (keep (k', b)) eqn:Ek; cbn.
  - destruct (str_eqb k k'); [reflexivity|]. apply IH. assumption.
  - destruct (str_eqb k k') eqn:E.
    + apply str_eqb_eq in E. subst k'. rewrite alookup_notin.
      * unfold keep in Ek. cbn in Ek. destruct (rb_stale b); cbn in Ek; [|discriminate].
        destruct (rb_users b =? 0) eqn:E0; [|discriminate]. apply N.eqb_eq in E0. congruence.
      * intro Hin. apply in_keys_filter in Hin. contradiction.
    + apply IH. assumption.
Qed.
Lemma users_idle m k :
  users_of (map (fun e : str * rbucket => (fst e, {| rb_users := rb_users (snd e); rb_stale := true |})) m) k = users_of m k.
Proof.
  unfold users_of. induction m as [|[k' b] t IH]; cbn; [reflexivity|]. destruct (str_eqb k k'); [reflexivity|exact IH].
Qed.
Lemma keys_idle (m : rtable) :
  map fst (map (fun e : str * rbucket => (fst e, {| rb_users := rb_users (snd e); rb_stale := true |})) m) = map fst m.
Proof. rewrite map_map. reflexivity. Qed.

Lemma cnt_rm1 h k q : cnt (rm1 h k) q = if str_eqb k q then cnt h q - 1 else cnt h q.
Proof.
  induction h as [|x t IH]; cbn.
  - destruct (str_eqb k q); reflexivity.
  - destruct (str_eqb x k) eqn:E.
    + apply str_eqb_eq in E. subst x. destruct (str_eqb k q); lia.
    + cbn. rewrite IH. destruct (str_eqb k q) eqn:E2; [|reflexivity].
      apply str_eqb_eq in E2. subst q. rewrite E. lia.
Qed.

Section Inv.
  Variable cap maxb : N.
  Definition Inv (m : rtable) (h : list str) : Prop :=
    NoDup (map fst m) /\ forall k, users_of m k = cnt h k /\ users_of m k <= cap.
  (* the holders after an operation: a successful take adds one, a release removes one *)
  Definition holders (h : list str) (o : rop) (r : rres) : list str :=
    match o, r with
    | RTake k, ROk => k :: h
    | RRelease k, _ => rm1 h k
    | _, _ => h
    end.
  (* releases are by holders *)
  Definition op_ok (h : list str) (o : rop) : Prop :=
    match o with RRelease k => 0 < cnt h k | _ => True end.

  Lemma step_inv m h o :
    Inv m h -> op_ok h o ->
    let r := rstep cap maxb m o in
    Inv (fst r) (holders h o (snd r)) /\ snd r <> RPanic.
  Proof.
    intros [ND HU] OK. destruct o as [k|k|]; cbn [rstep].
    - (* take *)
      set (m1 := if maxb <? N.of_nat (length m) then filter keep m else m).
      assert (Inv m1 h) as [ND1 HU1].
      { unfold m1. destruct (maxb <? N.of_nat (length m)); [|split; assumption].
        split; [apply nodup_filter; exact ND|]. intro q. rewrite users_filter_keep by exact ND. apply HU. }
      destruct (maxb <? N.of_nat (length m1)); cbn [fst snd holders].
      { split; [split; assumption|discriminate]. }
      fold (users_of m1 k). destruct (users_of m1 k <? cap) eqn:Eu; cbn [fst snd holders].
      + apply N.ltb_lt in Eu. split; [|discriminate]. split; [apply nodup_rset; exact ND1|].
        intro q. unfold users_of. rewrite alookup_rset. cbn [cnt]. rewrite (str_eqb_sym k q).
        destruct (str_eqb q k) eqn:E.
        * apply str_eqb_eq in E. subst q. cbn [rb_users]. fold (users_of m1 k). destruct (HU1 k) as [A B]. lia.
        * fold (users_of m1 q). destruct (HU1 q) as [A B]. lia.
      + split; [|discriminate]. split; [apply nodup_rset; exact ND1|].
        intro q. unfold users_of. rewrite alookup_rset. destruct (str_eqb q k) eqn:E.
        * apply str_eqb_eq in E. subst q. cbn [rb_users]. fold (users_of m1 k). apply HU1.
        * fold (users_of m1 q). apply HU1.
    - (* release by a holder *)
      cbn in OK. destruct (HU k) as [A B]. unfold users_of in A, B.
      destruct (alookup str_eqb k m) as [b|] eqn:El; [|lia].
      assert (0 <? rb_users b = true) as -> by (apply N.ltb_lt; lia). cbn [fst snd holders].
      split; [|discriminate]. split; [apply nodup_rset; exact ND|].
      intro q. unfold users_of. rewrite alookup_rset, cnt_rm1, (str_eqb_sym k q). destruct (str_eqb q k) eqn:E.
      + apply str_eqb_eq in E. subst q. cbn [rb_users]. lia.
      + fold (users_of m q). apply HU.
    - (* idle *)
      cbn [fst snd holders]. split; [|discriminate]. split; [rewrite keys_idle; exact ND|].
      intro q. rewrite users_idle. apply HU.
  Qed.

  (* histories: every release is by a holder of that moment *)
  Fixpoint wf_hist (m : rtable) (h : list str) (ops : list rop) : Prop :=
    match ops with
    | [] => True
    | o :: t => op_ok h o /\ let r := rstep cap maxb m o in wf_hist (fst r) (holders h o (snd r)) t
    end.
  Fixpoint final (m : rtable) (h : list str) (ops : list rop) : rtable * list str :=
    match ops with
    | [] => (m, h)
    | o :: t => let r := rstep cap maxb m o in final (fst r) (holders h o (snd r)) t
    end.

  Theorem reach_inv ops : forall m h, Inv m h -> wf_hist m h ops ->
    Inv (fst (final m h ops)) (snd (final m h ops)) /\ ~ In RPanic (rrun cap maxb m ops).
  Proof.
    induction ops as [|o t IH]; intros m h I W; cbn.
    - split; [exact I|tauto].
    - destruct W as [OK W]. destruct (step_inv m h o I OK) as [I' NP].
      destruct (IH _ _ I' W) as [I'' NP']. split; [exact I''|]. intros [E|E]; [congruence|contradiction].
  Qed.
  Lemma inv0 : Inv [] [].
  Proof. split; [constructor|]. intro k. cbn. split; [reflexivity|lia]. Qed.
End Inv.
