(* C11, the reaper: the histories of the model pass the monitor the implementation's histories are
   held to (clauses 30 and 31 of Limits/Reap.v). *)
From Maddy Require Import Lib.Base Limits.Reap Limits.ReapLemmas.
From Coq Require Import Lia.
Local Open Scope N_scope.

Section Mon.
  Variable cap maxb : N.

  Lemma take_ok_lt m h k :
    Inv cap m h -> snd (rstep cap maxb m (RTake k)) = ROk -> cnt h k < cap.
  Proof.
    intros [ND HU]. cbn [rstep].
    set (m1 := if maxb <? N.of_nat (length m) then filter keep m else m).
    assert (forall q, users_of m1 q = cnt h q) as HU1.
    { intro q. unfold m1. destruct (maxb <? N.of_nat (length m)); [rewrite users_filter_keep by exact ND|]; apply HU. }
    destruct (maxb <? N.of_nat (length m1)); cbn [snd]; [discriminate|].
    fold (users_of m1 k). destruct (users_of m1 k <? cap) eqn:Eu; cbn [snd]; [|discriminate].
    intros _. apply N.ltb_lt in Eu. rewrite <- HU1. exact Eu.
  Qed.
  Lemma release_ok m h k :
    Inv cap m h -> 0 < cnt h k -> snd (rstep cap maxb m (RRelease k)) = ROk.
  Proof.
    intros [ND HU] Hc. cbn [rstep]. destruct (HU k) as [A _]. unfold users_of in A.
    destruct (alookup str_eqb k m) as [b|]; [|lia].
    assert (0 <? rb_users b = true) as -> by (apply N.ltb_lt; lia). reflexivity.
  Qed.

  Theorem model_passes_monitor ops : forall m h,
    Inv cap m h -> wf_hist cap maxb m h ops -> mon cap h ops (rrun cap maxb m ops) = [].
  Proof.
    induction ops as [|o t IH]; intros m h I W; [reflexivity|].
    destruct W as [OK W]. destruct (step_inv cap maxb m h o I OK) as [I' NP].
    specialize (IH _ _ I' W). cbn [rrun mon].
    destruct o as [k|k|].
    - (* take *)
      destruct (snd (rstep cap maxb m (RTake k))) eqn:Er; cbn [holders] in IH; try exact IH.
      + pose proof (take_ok_lt m h k I Er) as Hlt. apply N.ltb_lt in Hlt. rewrite Hlt. exact IH.
      + congruence.
    - (* release by a holder *)
      cbn in OK. rewrite (release_ok m h k I OK) in *. cbn [holders] in IH. exact IH.
    - (* idle *)
      cbn [rstep snd fst] in *. exact IH.
  Qed.
End Mon.
