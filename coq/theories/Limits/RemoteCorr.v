(* C11, remote stream: permits still held after a history of deliveries through target.remote *)
From Maddy Require Export Lib.Base.
Local Open Scope N_scope.

Inductive case := CLeak (n : N).
Definition agrees (c : case) : bool := true.
Definition mismatches (cs : list case) : list N := find_idx (fun c => negb (agrees c)) cs.
Definition monitor (c : case) : list N := match c with CLeak n => if n =? 0 then [] else [20] end.
Definition monitor_failures (cs : list case) : list (N * list N) :=
  let fix go (i : N) (l : list case) :=
    match l with
    | [] => []
    | c :: t => match monitor c with [] => go (N.succ i) t | cl => (i, cl) :: go (N.succ i) t end
    end in go 0%N cs.
Definition tag (c : case) : N := 1.
Definition tags (cs : list case) : list N := map tag cs.
