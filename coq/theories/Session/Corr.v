(* C03 correspondence and monitor *)
From Maddy Require Export Lib.Base Session.Model Session.Lemmas.
Local Open Scope N_scope.

Record case := { c_cfg : cfg; c_cmds : list cmd; c_replies : list reply; c_log : list event;
                 c_marks : list nat;          (* length of the call log after each command *)
                 c_leaks : N }.               (* limit permits not returned after the session *)

Definition tev_eqb (a b : tev) : bool :=
  match a, b with
  | EStart x, EStart y | EBody x, EBody y | EBodyNA x, EBodyNA y | ECommit x, ECommit y | EAbort x, EAbort y => Bool.eqb x y
  | EAdd r x, EAdd q y => (r =? q) && Bool.eqb x y
  | _, _ => false
  end.
Definition ev_txn (e : event) : N := fst (fst (fst e)).
Definition ev_tgt (e : event) : N := snd (fst (fst e)).
Definition ev_inst (e : event) : N := snd (fst e).

(* which targets saw the body before the failing one, and which were committed before a failing
   Commit, depends on a Go map iteration: forget exactly that *)
Definition txn_has (lg : list event) (x : N) (p : tev -> bool) : bool :=
  existsb (fun e => (ev_txn e =? x) && p (snd e)) lg.
Definition canon (lm : bool) (lg : list event) : list (N * N * tev) :=
  flat_map (fun e =>
    let x := ev_txn e in
    match snd e with
    | EBody b => if negb lm && txn_has lg x (fun v => match v with EBody false => true | _ => false end) then [] else [(ev_tgt e, ev_inst e, EBody b)]
    | ECommit _ | EAbort _ =>
        if txn_has lg x (fun v => match v with ECommit false => true | _ => false end)
        then [(ev_tgt e, ev_inst e, EAbort true)] else [(ev_tgt e, ev_inst e, snd e)]
    | v => [(ev_tgt e, ev_inst e, v)]
    end) lg.
Definition cev_eqb (a b : N * N * tev) : bool :=
  (fst (fst a) =? fst (fst b)) && (snd (fst a) =? snd (fst b)) && tev_eqb (snd a) (snd b).
Definition per_inst (l : list (N * N * tev)) (i : N) : list (N * N * tev) := filter (fun e => snd (fst e) =? i) l.
Definition logs_agree (lm : bool) (a b : list event) : bool :=
  let ca := canon lm a in let cb := canon lm b in
  Nat.eqb (length ca) (length cb) &&
  forallb (fun e => list_eqb cev_eqb (per_inst ca (snd (fst e))) (per_inst cb (snd (fst e)))) (ca ++ cb).

Definition reply_eqb (a b : reply) : bool :=
  match a, b with
  | ROk, ROk | RFail, RFail | RNone, RNone => true
  | RData x, RData y =>
      (* go-smtp keys the statuses by the spelling the client used; the cases name recipients by
         their normal form, so among repeated occurrences of one recipient only the number of
         successes is compared (they differ only when a repeated LHLO left stale entries) *)
      list_eqb N.eqb (map fst x) (map fst y)
      && forallb (fun p => Nat.eqb (length (filter (fun q : N * bool => (fst q =? fst p) && snd q) x))
                                    (length (filter (fun q : N * bool => (fst q =? fst p) && snd q) y))) x
  | _, _ => false
  end.

Definition agrees (c : case) : bool :=
  let '(s, rs) := run (c_cfg c) st0 (c_cmds c) in
  list_eqb reply_eqb rs (c_replies c) && logs_agree (lmtp (c_cfg c)) (log s) (c_log c)
  && (N.of_nat (length (s_permits s)) =? c_leaks c).
Definition mismatches (cs : list case) : list N := find_idx (fun c => negb (agrees c)) cs.

(* ---- monitor ---- *)
Fixpoint segments (log : list event) (marks : list nat) (pos : nat) : list (list event) :=
  match marks with
  | [] => []
  | m :: rest => firstn (m - pos) log :: segments (skipn (m - pos) log) rest m
  end.

Section Mon.
  Variable cf : cfg.

  (* driver-level view of the commands: the recipients accepted in the current transaction, and
     whether an EHLO came after any of them *)
  Record dstate := { m_from : bool; m_rcpts : list N; m_ehlo : bool }.
  Definition open_of (m : option mstate) : list N := match m with Some (o, _) => o | None => [] end.

  Definition data_clauses (pre : option mstate) (lgpre seg : list event) (d : dstate) (r : reply) : list N :=
    let open := open_of pre in
    let committed i := existsb (fun e => (ev_inst e =? i) && match snd e with ECommit true => true | _ => false end) seg in
    let any_commit := existsb (fun e => match snd e with ECommit _ => true | _ => false end) seg in
    let inst_of t := find (fun i => existsb (fun e => (ev_inst e =? i) && (ev_tgt e =? t)) lgpre) open in
    let added i rr := existsb (fun e => (ev_inst e =? i) && match snd e with EAdd q true => q =? rr | _ => false end) lgpre in
    let rcpt_ok rr := forallb (fun t => match inst_of t with Some i => added i rr && committed i | None => false end) (route_of cf rr) in
    match r with
    | ROk =>
        (if forallb committed open then [] else [3]) ++
        (if forallb rcpt_ok (m_rcpts d) then [] else if m_ehlo d then [107] else [3])
    | RFail =>
        (* refused before the commit step: nothing may be committed *)
        if existsb (fun e => match snd e with ECommit false => true | _ => false end) seg then []
        else if any_commit then [4] else []
    | RData per =>
        flat_map (fun pr =>
          let rr := fst pr in
          let body_ok i := existsb (fun e => (ev_inst e =? i) && match snd e with EBody true | EBodyNA true => true | _ => false end) seg in
          let tgt_ok := forallb (fun t => match inst_of t with Some i => added i rr && body_ok i && committed i | None => false end) (route_of cf rr) in
          if Bool.eqb (snd pr) tgt_ok then []
          else if m_ehlo d then [107]
          else if negb (snd pr) && tgt_ok && existsb (fun e => match snd e with ECommit false => true | _ => false end) seg then [109]
          else [5]) per
    | RNone => []
    end.

  Definition no_commit (seg : list event) : list N :=
    if existsb (fun e => match snd e with ECommit _ => true | _ => false end) seg then [13] else [].

  Fixpoint mon_cmds (ks : list cmd) (rs : list reply) (segs : list (list event)) (pre : option mstate)
           (lgpre : list event) (d : dstate) : list N :=
    match ks, rs, segs with
    | k :: ks', r :: rs', seg :: segs' =>
        let post := mon_from pre seg in
        let here :=
          match k with
          | CData _ => if m_from d && match m_rcpts d with [] => false | _ => true end then data_clauses pre lgpre seg d r else []
          | CRcpt x => (match r with ROk => if mem x (chk_rcpt cf) then [12] else [] | _ => [] end) ++ no_commit seg
          | CMail x => (match r with ROk => if negb (deferred cf) && (mem x (chk_start cf) || mem x (bad_senders cf)) then [12] else [] | _ => [] end) ++ no_commit seg
          | _ => no_commit seg      (* only a DATA command that ran to its end may commit anything *)
          end in
        let d' :=
          match k, r with
          | CMail _, ROk => {| m_from := true; m_rcpts := m_rcpts d; m_ehlo := m_ehlo d |}
          | CRcpt x, ROk => {| m_from := m_from d; m_rcpts := m_rcpts d ++ [x]; m_ehlo := m_ehlo d |}
          | CData _, _ => if m_from d && match m_rcpts d with [] => false | _ => true end
                          then {| m_from := false; m_rcpts := []; m_ehlo := false |} else d
          | CRset, _ => {| m_from := false; m_rcpts := []; m_ehlo := false |}
          | CEhlo, _ => {| m_from := m_from d; m_rcpts := m_rcpts d; m_ehlo := match m_rcpts d with [] => m_ehlo d | _ => true end |}
          | _, _ => d
          end in
        here ++ mon_cmds ks' rs' segs' post (lgpre ++ seg) d'
    | _, _, _ => []
    end.
End Mon.

Definition monitor (c : case) : list N :=
  (match mon (c_log c) with
   | None => [1]
   | Some ([], _) => []
   | Some (_ :: _, _) => [2]
   end) ++
  mon_cmds (c_cfg c) (c_cmds c) (c_replies c) (segments (c_log c) (c_marks c) 0) (Some ([], 0)) []
           {| m_from := false; m_rcpts := []; m_ehlo := false |} ++
  (if c_leaks c =? 0 then [] else [6]) ++
  (* 11: a Commit on a delivery that never got the body successfully *)
  (if existsb (fun e => match snd e with
                        | ECommit _ => negb (existsb (fun e' => (ev_inst e' =? ev_inst e) && match snd e' with EBody true | EBodyNA _ => true | _ => false end) (c_log c))
                        | _ => false end) (c_log c) then [11] else []).

Definition dedup_N (l : list N) : list N :=
  fold_right (fun x acc => if existsb (N.eqb x) acc then acc else x :: acc) [] l.
Definition monitor_failures (cs : list case) : list (N * list N) :=
  let fix go (i : N) (l : list case) :=
    match l with
    | [] => []
    | c :: t => match dedup_N (monitor c) with [] => go (N.succ i) t | cl => (i, cl) :: go (N.succ i) t end
    end in go 0%N cs.

Definition tag (c : case) : N :=
  (if existsb (fun r => match r with ROk => true | _ => false end) (c_replies c) then 1 else 0)
  + (if existsb (fun e => match snd e with ECommit true => true | _ => false end) (c_log c) then 2 else 0)
  + (if existsb (fun e => match snd e with EAbort _ => true | _ => false end) (c_log c) then 4 else 0)
  + (if existsb (fun e => match snd e with EBody false | EBodyNA false | ECommit false | EStart false | EAdd _ false => true | _ => false end) (c_log c) then 8 else 0)
  + (if lmtp (c_cfg c) then 16 else 0) + (if deferred (c_cfg c) then 32 else 0)
  + (if existsb (fun k => match k with CRset | CEhlo => true | _ => false end) (c_cmds c) then 64 else 0)
  + (if existsb (fun k => match k with CDrop => true | _ => false end) (c_cmds c) then 128 else 0).
Definition tags (cs : list case) : list N := map tag cs.
