From Maddy Require Import Lib.Base Session.Model.
From Coq Require Import Lia.
Local Open Scope N_scope.

(* ---- the typestate monitor over the call log of all targets ----
   state: the delivery instances that are open, and the bound above which instance numbers are fresh *)
Definition mstate := (list N * N)%type.
Definition mon_step (m : option mstate) (e : event) : option mstate :=
  match m with
  | None => None
  | Some (open, hi) =>
      let i := snd (fst e) in
      match snd e with
      | EStart ok => if hi <=? i then Some (if ok then open ++ [i] else open, i + 1) else None
      | EAdd _ _ | EBody _ | EBodyNA _ => if mem i open then Some (open, hi) else None
      | ECommit _ | EAbort _ => if mem i open then Some (remove1 i open, hi) else None
      end
  end.
Definition mon_from (m : option mstate) (lg : list event) : option mstate := fold_left mon_step lg m.
Definition mon (lg : list event) : option mstate := mon_from (Some ([], 0)) lg.

Lemma mon_from_app m a b : mon_from m (a ++ b) = mon_from (mon_from m a) b.
Proof. apply fold_left_app. Qed.
Lemma mon_from_none lg : mon_from None lg = None.
Proof. induction lg; cbn; auto. Qed.

Lemma mem_head i l : mem i (i :: l) = true.
Proof. unfold mem. cbn. rewrite N.eqb_refl. reflexivity. Qed.
Lemma remove1_head i l : remove1 i (i :: l) = l.
Proof. cbn. rewrite N.eqb_refl. reflexivity. Qed.
Lemma mem_app_l i a b : mem i a = true -> mem i (a ++ b) = true.
Proof. unfold mem. rewrite existsb_app. intro H; rewrite H; reflexivity. Qed.
Lemma mem_app_r_single i a : mem i (a ++ [i]) = true.
Proof. unfold mem. rewrite existsb_app. cbn. rewrite N.eqb_refl. apply Bool.orb_true_r. Qed.
Lemma mem_map_od (o : od) l : In o l -> mem (od_i o) (map od_i l) = true.
Proof.
  intro H. unfold mem. apply existsb_exists. exists (od_i o). split; [apply in_map; exact H|apply N.eqb_refl].
Qed.

Section Sess.
  Variable c : cfg.

  Definition open_insts (s : st) : list N := match s_deliv s with Some d => map od_i (pd_open d) | None => [] end.
  Definition Inv (s : st) : Prop :=
    mon (log s) = Some (open_insts s, n_inst s) /\
    s_permits s = match s_deliv s with Some _ => [s_sender s] | None => [] end.

  (* Abort of the pipeline delivery closes every open instance *)
  Lemma abort_closes txn open failed n :
    mon_from (Some (map od_i open, n)) (abort_events c {| pd_txn := txn; pd_open := open; pd_failed := failed |}) = Some ([], n).
  Proof.
    unfold abort_events. cbn [pd_open pd_txn]. induction open as [|o rest IH]; [reflexivity|].
    cbn [map mon_from fold_left mon_step fst snd]. rewrite mem_head, remove1_head. exact IH.
  Qed.

  Lemma body_all_keeps txn sub : forall L n,
    (forall o, In o sub -> mem (od_i o) L = true) ->
    mon_from (Some (L, n)) (fst (body_all c txn sub)) = Some (L, n).
  Proof.
    induction sub as [|o rest IH]; intros L n H; [reflexivity|]. cbn [body_all].
    destruct (p_body (plan_of c (od_t o))).
    - cbn. rewrite (H o (or_introl eq_refl)). reflexivity.
    - destruct (body_all c txn rest) as [ev ok] eqn:E. cbn [fst mon_from fold_left mon_step snd].
      rewrite (H o (or_introl eq_refl)). specialize (IH L n). try rewrite E in IH. apply IH.
      intros o' Ho'. apply H. right. exact Ho'.
  Qed.

  Lemma commit_all_closes txn sub : forall af br n,
    mon_from (Some (map od_i sub, n)) (fst (commit_all c txn sub af br)) = Some ([], n).
  Proof.
    induction sub as [|o rest IH]; intros af br n; [reflexivity|]. cbn [commit_all].
    destruct (br || af || od_bodyfailed o).
    - destruct (commit_all c txn rest af br) as [ev ok] eqn:E. cbn [fst map mon_from fold_left mon_step snd].
      rewrite mem_head, remove1_head. specialize (IH af br n). try rewrite E in IH. exact IH.
    - destruct (commit_all c txn rest af (p_commit (plan_of c (od_t o)))) as [ev ok] eqn:E.
      cbn [fst map mon_from fold_left mon_step snd].
      rewrite mem_head, remove1_head. specialize (IH af (p_commit (plan_of c (od_t o))) n). try rewrite E in IH. exact IH.
  Qed.

  Lemma body_na_keeps txn sub : forall L n,
    (forall o, In o sub -> mem (od_i o) L = true) ->
    mon_from (Some (L, n)) (fst (fst (body_na c txn sub))) = Some (L, n) /\
    map od_i (snd (fst (body_na c txn sub))) = map od_i sub.
  Proof.
    induction sub as [|o rest IH]; intros L n H; [split; reflexivity|]. cbn [body_na].
    destruct (IH L n (fun o' Ho' => H o' (or_intror Ho'))) as [IH1 IH2].
    destruct (body_na c txn rest) as [[ev os] sts]. cbn [fst snd] in IH1, IH2.
    assert (Hm := H o (or_introl eq_refl)).
    destruct (p_partial (plan_of c (od_t o))); [|destruct (p_body (plan_of c (od_t o)))];
      cbn [fst snd map mon_from fold_left mon_step od_i]; rewrite Hm; (split; [exact IH1|rewrite IH2; reflexivity]).
  Qed.

  Lemma map_update_od_i t r open :
    map od_i (map (fun o' => if od_t o' =? t then {| od_t := t; od_i := od_i o'; od_rcpts := od_rcpts o' ++ [r]; od_bodyfailed := od_bodyfailed o' |} else o') open)
    = map od_i open.
  Proof. induction open as [|o rest IH]; [reflexivity|]. cbn. rewrite IH. destruct (od_t o =? t); reflexivity. Qed.

  Lemma add_targets_mon txn r ts : forall open ni lg open' ni' lg' ok,
    mon lg = Some (map od_i open, ni) ->
    add_targets c txn open ni lg r ts = (open', ni', lg', ok) ->
    mon lg' = Some (map od_i open', ni').
  Proof.
    induction ts as [|t rest IH]; intros open ni lg open' ni' lg' ok Hm H; cbn [add_targets] in H.
    - inversion H; subst. exact Hm.
    - destruct (find (fun o => od_t o =? t) open) as [o|] eqn:Ef.
      + apply find_some in Ef as [Hin _].
        destruct (mem r (p_rcpt (plan_of c t))).
        * inversion H; subst. unfold mon in *. rewrite mon_from_app, Hm. cbn. rewrite (mem_map_od o _ Hin). reflexivity.
        * eapply IH; [|exact H]. unfold mon in *. rewrite mon_from_app, Hm. cbn. rewrite (mem_map_od o _ Hin).
          rewrite map_update_od_i. reflexivity.
      + destruct (p_start (plan_of c t)).
        * inversion H; subst. unfold mon in *. rewrite mon_from_app, Hm. cbn. rewrite N.leb_refl. reflexivity.
        * destruct (mem r (p_rcpt (plan_of c t))).
          -- inversion H; subst. unfold mon in *. rewrite !mon_from_app, Hm. cbn. rewrite N.leb_refl.
             rewrite map_app. cbn. rewrite mem_app_r_single. reflexivity.
          -- eapply IH; [|exact H]. unfold mon in *. rewrite !mon_from_app, Hm. cbn. rewrite N.leb_refl.
             rewrite map_app. cbn. rewrite mem_app_r_single. reflexivity.
  Qed.

  Lemma Inv0 : Inv st0.
  Proof. split; reflexivity. Qed.

  Lemma remove1_single x : remove1 x [x] = [].
  Proof. cbn. rewrite N.eqb_refl. reflexivity. Qed.

  Lemma inv_sess_abort s : Inv s -> Inv (sess_abort c s) /\ s_deliv (sess_abort c s) = None.
  Proof.
    intros [Hm Hp]. unfold sess_abort. destruct (s_deliv s) as [d|] eqn:Ed.
    - split; [|reflexivity]. split.
      + unfold open_insts in *. cbn [log s_deliv n_inst upd]. try rewrite Ed in Hm. unfold mon in *.
        rewrite mon_from_app, Hm. destruct d as [txn open failed]. apply abort_closes.
      + cbn [s_permits s_deliv upd]. rewrite Hp. apply remove1_single.
    - split; [|exact Ed]. split; [exact Hm|]. try rewrite Ed. try rewrite Ed in Hp. exact Hp.
  Qed.

  Lemma inv_drv_reset s : Inv s -> Inv (drv_reset c s) /\ s_deliv (drv_reset c s) = None.
  Proof.
    intro H. destruct (inv_sess_abort s H) as [[Hm Hp] Hn]. unfold drv_reset.
    split; [|cbn; exact Hn]. split.
    - unfold open_insts in *. cbn [log s_deliv n_inst upd]. exact Hm.
    - cbn [s_permits s_deliv s_sender upd]. exact Hp.
  Qed.

  Lemma inv_start_delivery s sender s' ok :
    Inv s -> s_deliv s = None -> start_delivery c s sender = (s', ok) ->
    Inv s' /\ (ok = false -> s' = s) /\ (ok = true -> exists d, s_deliv s' = Some d).
  Proof.
    intros [Hm Hp] Hn. unfold start_delivery.
    destruct (mem sender (bad_senders c)); [intro H; inversion H; subst; repeat split; auto; discriminate|].
    destruct (mem sender (chk_start c)); [intro H; inversion H; subst; repeat split; auto; discriminate|].
    intro H; inversion H; subst. split; [|split; [discriminate|intros _; eexists; reflexivity]].
    split.
    - unfold open_insts in *. cbn [log s_deliv n_inst upd pd_open map]. try rewrite Hn in Hm. exact Hm.
    - cbn [s_permits s_deliv s_sender upd]. try rewrite Hn in Hp. rewrite Hp. reflexivity.
  Qed.

  Lemma inv_same_core s f rc e :
    Inv s -> Inv (upd s f rc (s_sender s) (s_deliv s) e (s_permits s) (n_txn s) (n_inst s) (log s)).
  Proof. intros [Hm Hp]. split; [exact Hm|exact Hp]. Qed.

  Lemma inv_clear_err s : Inv s -> s_deliv s = None ->
    Inv (upd s (d_from s) (d_rcpts s) (s_sender s) None false (s_permits s) (n_txn s) (n_inst s) (log s)).
  Proof.
    intros [Hm Hp] Hn. split.
    - unfold open_insts in *. cbn [log s_deliv n_inst upd]. rewrite Hn in Hm. exact Hm.
    - cbn [s_permits s_deliv upd]. rewrite Hn in Hp. exact Hp.
  Qed.

  Lemma inv_do_mail s sender : Inv s -> Inv (fst (do_mail c s sender)).
  Proof.
    intro H. unfold do_mail. destruct (s_deliv s) as [d|] eqn:Ed; [exact H|].
    pose proof (inv_clear_err s H Ed) as H0.
    set (s0 := upd s (d_from s) (d_rcpts s) (s_sender s) None false (s_permits s) (n_txn s) (n_inst s) (log s)) in *.
    destruct (deferred c).
    - cbn [fst]. destruct H0 as [Hm Hp]. split.
      + unfold open_insts in *. cbn [log s_deliv n_inst upd] in *. exact Hm.
      + cbn [s_permits s_deliv s_sender upd] in *. exact Hp.
    - destruct (start_delivery c s0 sender) as [s' ok] eqn:E.
      destruct (inv_start_delivery s0 sender s' ok H0 eq_refl E) as (Hi & _ & _).
      destruct ok; cbn [fst]; [apply inv_same_core; exact Hi|exact Hi].
  Qed.

  Lemma inv_do_rcpt s r : Inv s -> Inv (fst (do_rcpt c s r)).
  Proof.
    intro H. unfold do_rcpt. destruct (d_from s); [|exact H]. cbn [negb].
    assert (G : forall s1, Inv s1 ->
      Inv (fst (match s_deliv s1 with
                | None => (s1, RFail)
                | Some d =>
                    if mem r (chk_rcpt c) then (s1, RFail)
                    else match route_of c r with
                         | [] => (s1, RFail)
                         | ts =>
                           let '(open, ni, lg, ok) := add_targets c (pd_txn d) (pd_open d) (n_inst s1) (log s1) r ts in
                           let d' := {| pd_txn := pd_txn d; pd_open := open; pd_failed := pd_failed d |} in
                           (upd s1 (d_from s1) (if ok then d_rcpts s1 ++ [r] else d_rcpts s1) (s_sender s1) (Some d') (s_err s1)
                                (s_permits s1) (n_txn s1) ni lg,
                            if ok then ROk else RFail)
                         end
                end))).
    { intros s1 [Hm Hp]. unfold open_insts in Hm. destruct (s_deliv s1) as [d|] eqn:Ed.
      2:{ cbn [fst]. split; [unfold open_insts; rewrite Ed; exact Hm|rewrite Ed; exact Hp]. }
      assert (Hi : Inv s1) by (split; [unfold open_insts; rewrite Ed; exact Hm|rewrite Ed; exact Hp]).
      destruct (mem r (chk_rcpt c)); [exact Hi|].
      destruct (route_of c r) as [|t ts]; [exact Hi|].
      destruct (add_targets c (pd_txn d) (pd_open d) (n_inst s1) (log s1) r (t :: ts)) as [[[open ni] lg] ok] eqn:Ea.
      cbn [fst]. split.
      - unfold open_insts. cbn [log s_deliv n_inst upd pd_open].
        eapply add_targets_mon; [|exact Ea]. exact Hm.
      - cbn [s_permits s_deliv s_sender upd]. exact Hp. }
    pose proof (G s H) as Gs.
    destruct (s_deliv s) as [d|] eqn:Ed.
    - rewrite ?Ed in *. exact Gs.
    - destruct (s_err s); [exact H|].
      destruct (start_delivery c s (s_sender s)) as [s' ok] eqn:E.
      destruct (inv_start_delivery s (s_sender s) s' ok H Ed E) as (Hi & Hf & Ht).
      destruct ok.
      + apply G. exact Hi.
      + cbn [fst]. apply inv_same_core. exact Hi.
  Qed.

  Lemma inv_clean s lg :
    mon lg = Some ([], n_inst s) -> (exists d, s_deliv s = Some d) -> s_permits s = [s_sender s] -> Inv (clean s lg).
  Proof.
    intros Hm _ Hp. split.
    - unfold open_insts. cbn [log s_deliv n_inst upd clean]. exact Hm.
    - cbn [s_permits s_deliv upd clean]. rewrite Hp. apply remove1_single.
  Qed.

  Lemma in_members (open : list od) : forall o, In o open -> mem (od_i o) (map od_i open) = true.
  Proof. intros o H. apply mem_map_od. exact H. Qed.

  Lemma inv_do_data s rd : Inv s -> Inv (fst (do_data c s rd)).
  Proof.
    intro H. unfold do_data.
    destruct (negb (d_from s) || match d_rcpts s with [] => true | _ => false end); [exact H|].
    destruct (s_deliv s) as [d|] eqn:Ed; [|apply inv_drv_reset; exact H].
    destruct (negb rd); [apply inv_drv_reset; exact H|].
    destruct H as [Hm Hp]. unfold open_insts in Hm. try rewrite Ed in Hm. try rewrite Ed in Hp. unfold mon in Hm.
    destruct d as [txn open failed]. cbn [pd_open pd_txn] in *.
    assert (Hex : exists d, s_deliv s = Some d) by (eexists; exact Ed).
    destruct (lmtp c).
    - destruct (chk_body c).
      + destruct (commit_all c txn open true false) as [ev ok] eqn:Ec. cbn [fst].
        apply inv_drv_reset. apply inv_clean; [|exact Hex|exact Hp].
        unfold mon. rewrite mon_from_app, Hm. assert (X := commit_all_closes txn open true false (n_inst s)).
        rewrite Ec in X. exact X.
      + destruct (body_na c txn open) as [[ev1 open'] sts] eqn:Eb.
        destruct (commit_all c txn open' false false) as [ev2 cok] eqn:Ec. cbn [fst].
        apply inv_drv_reset. apply inv_clean; [|exact Hex|exact Hp].
        destruct (body_na_keeps txn open (map od_i open) (n_inst s) (in_members open)) as [B1 B2].
        rewrite Eb in B1, B2. cbn [fst snd] in B1, B2.
        unfold mon. rewrite !mon_from_app, Hm, B1. rewrite <- B2.
        assert (X := commit_all_closes txn open' false false (n_inst s)). rewrite Ec in X. exact X.
    - destruct (chk_body c).
      + cbn [fst]. apply inv_drv_reset. apply inv_clean; [|exact Hex|exact Hp].
        unfold mon. rewrite mon_from_app, Hm. apply abort_closes.
      + destruct (body_all c txn open) as [ev1 bok] eqn:Eb.
        assert (B := body_all_keeps txn open (map od_i open) (n_inst s) (in_members open)).
        rewrite Eb in B. cbn [fst] in B.
        destruct bok; cbn [negb].
        * destruct (commit_all c txn open false false) as [ev2 cok] eqn:Ec. cbn [fst].
          apply inv_drv_reset. apply inv_clean; [|exact Hex|exact Hp].
          unfold mon. rewrite !mon_from_app, Hm, B.
          assert (X := commit_all_closes txn open false false (n_inst s)). rewrite Ec in X. exact X.
        * cbn [fst]. apply inv_drv_reset. apply inv_clean; [|exact Hex|exact Hp].
          unfold mon. rewrite !mon_from_app, Hm, B. apply abort_closes.
  Qed.

  Lemma inv_do_ehlo s : Inv s -> Inv (do_ehlo c s).
  Proof.
    intro H. destruct (inv_sess_abort s H) as [[Hm Hp] Hn]. unfold do_ehlo. split.
    - unfold open_insts in *. cbn [log s_deliv n_inst upd]. try rewrite Hn in Hm. exact Hm.
    - cbn [s_permits s_deliv upd]. try rewrite Hn in Hp. exact Hp.
  Qed.

  (* the driver and the session agree: no MAIL accepted means no open delivery *)
  Definition Sync (s : st) : Prop := d_from s = false -> s_deliv s = None.

  Lemma sync_step s k : Inv s -> Sync s -> Sync (fst (step c s k)).
  Proof.
    intros HI HS. destruct k; cbn [step fst].
    - unfold do_mail. destruct (s_deliv s) as [d|] eqn:Ed; [exact HS|].
      destruct (deferred c); [cbn; intro; discriminate|].
      set (s0 := upd s (d_from s) (d_rcpts s) (s_sender s) None false (s_permits s) (n_txn s) (n_inst s) (log s)).
      destruct (start_delivery c s0 sender) as [s' ok] eqn:E.
      destruct (inv_start_delivery s0 sender s' ok (inv_clear_err s HI Ed) eq_refl E) as (_ & Hf & _).
      destruct ok; cbn [fst]; [intro; discriminate|]. rewrite (Hf eq_refl). intros _. reflexivity.
    - unfold do_rcpt. destruct (d_from s) eqn:Ef; cbn [negb]; [|exact HS].
      (* d_from stays true on every branch *)
      assert (forall x : st * reply, d_from (fst x) = true -> Sync (fst x)) as K by (intros x Hx Hf; congruence).
      apply K.
      destruct (s_deliv s) as [d|] eqn:Ed.
      + rewrite ?Ed. destruct (mem r (chk_rcpt c)); [exact Ef|]. destruct (route_of c r); [exact Ef|].
        destruct (add_targets _ _ _ _ _ _ _) as [[[o1 n1] l1] ok1]. cbn. exact Ef.
      + destruct (s_err s); [exact Ef|].
        destruct (start_delivery c s (s_sender s)) as [s' ok] eqn:E.
        assert (Hf' : d_from s' = true).
        { unfold start_delivery in E. destruct (mem _ (bad_senders c)); [inversion E; subst; exact Ef|].
          destruct (mem _ (chk_start c)); inversion E; subst; exact Ef. }
        destruct ok; [|cbn; exact Hf'].
        destruct (s_deliv s') as [d|]; [|exact Hf'].
        destruct (mem r (chk_rcpt c)); [exact Hf'|]. destruct (route_of c r); [exact Hf'|].
        destruct (add_targets _ _ _ _ _ _ _) as [[[o1 n1] l1] ok1]. cbn. exact Hf'.
    - unfold do_data.
      destruct (negb (d_from s) || match d_rcpts s with [] => true | _ => false end); [exact HS|].
      assert (R : forall s1, Inv s1 -> Sync (drv_reset c s1)) by (intros s1 H1 _; apply inv_drv_reset; exact H1).
      destruct (s_deliv s) as [d|] eqn:Ed; [|apply R; exact HI].
      destruct (negb readable); [apply R; exact HI|].
      assert (R2 : forall s1, s_deliv (drv_reset c s1) = None \/ True) by (intros; right; exact I).
      assert (RC : forall lg, Sync (drv_reset c (clean s lg))).
      { intros lg _. unfold drv_reset, sess_abort, clean. cbn. reflexivity. }
      destruct (lmtp c); destruct (chk_body c).
      + destruct (commit_all _ _ _ _ _) as [ev ok]. cbn [fst]. apply RC.
      + destruct (body_na _ _ _) as [[ev1 open'] sts]. destruct (commit_all _ _ _ _ _) as [ev2 cok]. cbn [fst]. apply RC.
      + cbn [fst]. apply RC.
      + destruct (body_all _ _ _) as [ev1 bok]. destruct (negb bok); [cbn [fst]; apply RC|].
        destruct (commit_all _ _ _ _ _) as [ev2 cok]. cbn [fst]. apply RC.
    - intros _. apply inv_drv_reset. exact HI.
    - exact HS.
    - intros _. unfold do_ehlo. cbn. reflexivity.
    - intros _. apply inv_sess_abort. exact HI.
    - intros _. apply inv_sess_abort. exact HI.
  Qed.

  Lemma inv_step s k : Inv s -> Sync s -> Inv (fst (step c s k)).
  Proof.
    intros HI HS. destruct k; cbn [step fst].
    - apply inv_do_mail; assumption.
    - apply inv_do_rcpt; assumption.
    - apply inv_do_data; assumption.
    - apply inv_drv_reset; assumption.
    - assumption.
    - apply inv_do_ehlo; assumption.
    - apply inv_sess_abort; assumption.
    - apply inv_sess_abort; assumption.
  Qed.

  (* a whole session, any commands: the call log passes the typestate monitor - every call goes
     to an open delivery, every delivery is closed at most once - nothing is left open at the
     end, and every limit permit is back *)
  Lemma run_closed ks : forall s,
    Inv s -> Sync s ->
    exists n, mon (log (fst (run c s ks))) = Some ([], n) /\ s_permits (fst (run c s ks)) = [].
  Proof.
    induction ks as [|k rest IH]; intros s HI HS.
    - cbn [run fst]. destruct (inv_sess_abort s HI) as [[Hm Hp] Hn].
      exists (n_inst (sess_abort c s)). unfold open_insts in Hm. try rewrite Hn in Hm; try rewrite Hn in Hp; split; assumption.
    - cbn [run]. destruct (step c s k) as [s' r] eqn:E.
      assert (HI' : Inv s') by (replace s' with (fst (step c s k)) by (rewrite E; reflexivity); apply inv_step; assumption).
      assert (HS' : Sync s') by (replace s' with (fst (step c s k)) by (rewrite E; reflexivity); apply sync_step; assumption).
      destruct (ends k) eqn:Ek.
      + cbn [fst]. destruct k; try discriminate; cbn [step] in E; inversion E; subst;
          destruct (inv_sess_abort s HI) as [[Hm Hp] Hn]; exists (n_inst (sess_abort c s));
          unfold open_insts in Hm; try rewrite Hn in Hm; try rewrite Hn in Hp; split; assumption.
      + destruct (run c s' rest) as [s'' rs] eqn:Er. cbn [fst].
        specialize (IH s' HI' HS'). rewrite Er in IH. exact IH.
  Qed.

  (* ---- what a reply means ---- *)
  Lemma commit_all_ok txn sub : forall br ev,
    commit_all c txn sub false br = (ev, true) ->
    br = false /\
    forall o, In o sub -> od_bodyfailed o = false -> In (txn, od_t o, od_i o, ECommit true) ev.
  Proof.
    induction sub as [|o rest IH]; intros br ev H; cbn [commit_all] in H.
    - inversion H. destruct br; [discriminate|]. split; [reflexivity|intros o []].
    - cbn [orb] in H. rewrite Bool.orb_false_r in H. destruct br; cbn [orb] in H.
      + destruct (commit_all c txn rest false true) as [ev' ok] eqn:E. inversion H; subst.
        destruct (IH true ev' E) as [X _]. discriminate.
      + destruct (od_bodyfailed o) eqn:Eb.
        * destruct (commit_all c txn rest false false) as [ev' ok] eqn:E. inversion H; subst.
          destruct (IH false ev' E) as [_ Y]. split; [reflexivity|].
          intros o' [Ho|Ho] Hb; [subst; congruence|right; apply Y; assumption].
        * destruct (commit_all c txn rest false (p_commit (plan_of c (od_t o)))) as [ev' ok] eqn:E. inversion H; subst.
          destruct (IH _ ev' E) as [X Y]. rewrite X. split; [reflexivity|].
          intros o' [Ho|Ho] Hb; [subst; left; reflexivity|right; apply Y; assumption].
  Qed.

  Definition is_commit (e : event) : bool := match snd e with ECommit _ => true | _ => false end.
  Lemma abort_events_no_commit d : existsb is_commit (abort_events c d) = false.
  Proof. unfold abort_events. induction (pd_open d) as [|o rest IH]; [reflexivity|]. cbn. exact IH. Qed.
  Lemma body_all_no_commit txn sub : existsb is_commit (fst (body_all c txn sub)) = false.
  Proof.
    induction sub as [|o rest IH]; [reflexivity|]. cbn [body_all].
    destruct (p_body (plan_of c (od_t o))); [reflexivity|].
    destruct (body_all c txn rest) as [ev ok]. cbn. exact IH.
  Qed.
  (* LMTP: the reply of recipient r is a success only if every delivery r was added to got the
     body and was committed *)
  Definition r_ok (sts : list (N * bool)) (r : N) : bool :=
    forallb (fun x : N * bool => negb (fst x =? r) || snd x) sts.

  Lemma r_ok_app a b r : r_ok (a ++ b) r = r_ok a r && r_ok b r.
  Proof. unfold r_ok. apply forallb_app. Qed.
  Lemma r_ok_const_false l r : In r l -> r_ok (map (fun r => (r, false)) l) r = false.
  Proof.
    induction l as [|x l IH]; [intros []|]. intros [H|H]; unfold r_ok in *; cbn [map forallb fst snd].
    - subst. rewrite N.eqb_refl. reflexivity.
    - rewrite (IH H). apply Bool.andb_false_r.
  Qed.

  Lemma body_na_ok txn r : forall sub ev1 sub' sts,
    body_na c txn sub = (ev1, sub', sts) -> r_ok sts r = true ->
    forall o, In o sub -> In r (od_rcpts o) -> od_bodyfailed o = false ->
      In o sub' /\ (In (txn, od_t o, od_i o, EBodyNA true) ev1 \/ In (txn, od_t o, od_i o, EBody true) ev1).
  Proof.
    induction sub as [|o rest IH]; intros ev1 sub' sts H Hr o' Ho' Hin Hb; [destruct Ho'|].
    cbn [body_na] in H. destruct (body_na c txn rest) as [[ev os] st'] eqn:E.
    destruct (p_partial (plan_of c (od_t o))) eqn:Ep.
    - inversion H; subst. rewrite r_ok_app in Hr. apply andb_true_iff in Hr. destruct Hr as [Hr1 Hr2].
      destruct Ho' as [->|Ho'].
      + destruct (p_body (plan_of c (od_t o'))) eqn:Eb.
        * cbn [negb] in Hr1. rewrite (r_ok_const_false _ _ Hin) in Hr1. discriminate.
        * split; [left; reflexivity|left; left; reflexivity].
      + destruct (IH ev os st' eq_refl Hr2 o' Ho' Hin Hb) as [A [B|B]]; (split; [right; exact A|]); [left|right]; right; exact B.
    - destruct (p_body (plan_of c (od_t o))) eqn:Eb; inversion H; subst.
      + rewrite r_ok_app in Hr. apply andb_true_iff in Hr. destruct Hr as [Hr1 Hr2].
        destruct Ho' as [->|Ho'].
        * rewrite (r_ok_const_false _ _ Hin) in Hr1. discriminate.
        * destruct (IH ev os st' eq_refl Hr2 o' Ho' Hin Hb) as [A [B|B]]; (split; [right; exact A|]); [left|right]; right; exact B.
      + destruct Ho' as [->|Ho'].
        * split; [left; reflexivity|right; left; reflexivity].
        * destruct (IH ev os sts eq_refl Hr o' Ho' Hin Hb) as [A [B|B]]; (split; [right; exact A|]); [left|right]; right; exact B.
  Qed.

  Lemma lmtp_success_means_committed txn sub ev1 sub' sts ev2 cok r :
    body_na c txn sub = (ev1, sub', sts) -> commit_all c txn sub' false false = (ev2, cok) ->
    r_ok sts r && cok = true ->
    forall o, In o sub -> In r (od_rcpts o) -> od_bodyfailed o = false ->
      (In (txn, od_t o, od_i o, EBodyNA true) ev1 \/ In (txn, od_t o, od_i o, EBody true) ev1) /\
      In (txn, od_t o, od_i o, ECommit true) ev2.
  Proof.
    intros H1 H2 H o Ho Hin Hb. apply andb_true_iff in H. destruct H as [Hr Hc]. subst cok.
    destruct (body_na_ok txn r sub ev1 sub' sts H1 Hr o Ho Hin Hb) as [A B].
    split; [exact B|]. exact (proj2 (commit_all_ok txn sub' false ev2 H2) o A Hb).
  Qed.
End Sess.
