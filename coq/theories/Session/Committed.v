(* C03: a transaction answered with success has been committed to every target of every accepted
   recipient - over whole sessions.  Proofs. *)
From Maddy Require Import Lib.Base Session.Model Session.Lemmas.
Local Open Scope N_scope.

Section Link.
  Variable c : cfg.

  Definition has (open : list od) (t r : N) : Prop := exists o, In o open /\ od_t o = t /\ In r (od_rcpts o).
  Definition clean_open (open : list od) : Prop := forall o, In o open -> od_bodyfailed o = false.

  (* what the driver believes to be the recipients of the transaction are recipients of the
     open deliveries of all their targets *)
  Definition Link (s : st) : Prop :=
    match s_deliv s with
    | None => d_rcpts s = []
    | Some d => clean_open (pd_open d) /\
                forall r, In r (d_rcpts s) -> forall t, In t (route_of c r) -> has (pd_open d) t r
    end.

  Lemma link0 : Link st0.
  Proof. reflexivity. Qed.

  Lemma has_app_l open x t r : has open t r -> has (open ++ x) t r.
  Proof. intros [o [H1 H2]]. exists o. split; [apply in_or_app; left; exact H1|exact H2]. Qed.

  Lemma add_targets_link txn r : forall ts open ni lg open' ni' lg' ok,
    add_targets c txn open ni lg r ts = (open', ni', lg', ok) ->
    clean_open open ->
    clean_open open' /\
    (forall t r0, has open t r0 -> has open' t r0) /\
    (ok = true -> forall t, In t ts -> has open' t r).
  Proof.
    induction ts as [|t rest IH]; intros open ni lg open' ni' lg' ok E Hc; cbn [add_targets] in E.
    - inversion E; subst. split; [exact Hc|]. split; [auto|]. intros _ t [].
    - destruct (find (fun o => od_t o =? t) open) as [o|] eqn:Ef.
      + destruct (mem r (p_rcpt (plan_of c t))).
        * inversion E; subst. split; [exact Hc|]. split; [auto|discriminate].
        * set (open1 := map (fun o' => if od_t o' =? t then {| od_t := t; od_i := od_i o'; od_rcpts := od_rcpts o' ++ [r]; od_bodyfailed := od_bodyfailed o' |} else o') open) in *.
          assert (Hc1 : clean_open open1).
          { intros o1 H1. apply in_map_iff in H1. destruct H1 as [o0 [E0 H0]]. destruct (od_t o0 =? t); subst o1; [cbn|]; apply Hc; exact H0. }
          assert (Hp1 : forall t0 r0, has open t0 r0 -> has open1 t0 r0).
          { intros t0 r0 [o0 [H0 [T0 R0]]]. destruct (od_t o0 =? t) eqn:Et.
            - exists {| od_t := t; od_i := od_i o0; od_rcpts := od_rcpts o0 ++ [r]; od_bodyfailed := od_bodyfailed o0 |}.
              split; [apply in_map_iff; exists o0; rewrite Et; split; [reflexivity|exact H0]|]. cbn. apply N.eqb_eq in Et.
              split; [congruence|apply in_or_app; left; exact R0].
            - exists o0. split; [apply in_map_iff; exists o0; rewrite Et; split; [reflexivity|exact H0]|]. split; assumption. }
          assert (Hh : has open1 t r).
          { apply find_some in Ef. destruct Ef as [Ho Et].
            exists {| od_t := t; od_i := od_i o; od_rcpts := od_rcpts o ++ [r]; od_bodyfailed := od_bodyfailed o |}.
            split; [apply in_map_iff; exists o; rewrite Et; split; [reflexivity|exact Ho]|]. cbn.
            split; [reflexivity|apply in_or_app; right; left; reflexivity]. }
          destruct (IH _ _ _ _ _ _ _ E Hc1) as [A [B C]].
          split; [exact A|]. split; [intros t0 r0 H; apply B; apply Hp1; exact H|].
          intros Hok t0 [->|H]; [apply B; exact Hh|exact (C Hok t0 H)].
      + destruct (p_start (plan_of c t)).
        * inversion E; subst. split; [exact Hc|]. split; [auto|discriminate].
        * destruct (mem r (p_rcpt (plan_of c t))).
          -- inversion E; subst. split; [|split; [|discriminate]].
             ++ intros o1 H1. apply in_app_iff in H1. destruct H1 as [H1|[H1|[]]]; [apply Hc; exact H1|subst; reflexivity].
             ++ intros t0 r0 H. apply has_app_l. exact H.
          -- set (open1 := open ++ [{| od_t := t; od_i := ni; od_rcpts := [r]; od_bodyfailed := false |}]) in *.
             assert (Hc1 : clean_open open1).
             { intros o1 H1. apply in_app_iff in H1. destruct H1 as [H1|[H1|[]]]; [apply Hc; exact H1|subst; reflexivity]. }
             assert (Hh : has open1 t r).
             { exists {| od_t := t; od_i := ni; od_rcpts := [r]; od_bodyfailed := false |}.
               split; [apply in_or_app; right; left; reflexivity|]. cbn. split; [reflexivity|left; reflexivity]. }
             destruct (IH _ _ _ _ _ _ _ E Hc1) as [A [B C]].
             split; [exact A|]. split; [intros t0 r0 H; apply B; apply has_app_l; exact H|].
             intros Hok t0 [->|H]; [apply B; exact Hh|exact (C Hok t0 H)].
  Qed.

  Lemma link_sess_abort s : Link s -> s_deliv (sess_abort c s) = None /\ d_rcpts (sess_abort c s) = d_rcpts s.
  Proof. unfold sess_abort. destruct (s_deliv s) eqn:E; cbn; [auto|]. intros _. split; [exact E|reflexivity]. Qed.

  Lemma link_drv_reset s : Link (drv_reset c s).
  Proof.
    unfold Link, drv_reset. cbn [upd s_deliv d_rcpts].
    unfold sess_abort. destruct (s_deliv s) eqn:E; cbn [upd s_deliv]; [reflexivity|rewrite E; reflexivity].
  Qed.

  Lemma link_do_mail s sender : Link s -> Link (fst (do_mail c s sender)).
  Proof.
    intros HL. unfold do_mail. destruct (s_deliv s) eqn:E; [exact HL|].
    unfold Link in HL. rewrite E in HL.
    destruct (deferred c); [unfold Link; cbn; exact HL|].
    unfold start_delivery. cbn [upd d_from d_rcpts s_sender s_deliv s_err s_permits n_txn n_inst log].
    destruct (mem sender (bad_senders c)); [unfold Link; cbn; exact HL|].
    destruct (mem sender (chk_start c)); [unfold Link; cbn; exact HL|].
    unfold Link. cbn. split; [intros o []|]. rewrite HL. intros r [].
  Qed.

  Lemma link_do_rcpt s r : Link s -> Link (fst (do_rcpt c s r)).
  Proof.
    intros HL. unfold do_rcpt. destruct (d_from s); cbn [negb]; [|exact HL].
    (* the state in which the targets are added to *)
    assert (Hst : forall s1, Link s1 -> forall d, s_deliv s1 = Some d ->
              Link (fst (if mem r (chk_rcpt c) then (s1, RFail)
                         else match route_of c r with
                              | [] => (s1, RFail)
                              | ts => let '(open, ni, lg, ok) := add_targets c (pd_txn d) (pd_open d) (n_inst s1) (log s1) r ts in
                                      let d' := {| pd_txn := pd_txn d; pd_open := open; pd_failed := pd_failed d |} in
                                      (upd s1 (d_from s1) (if ok then d_rcpts s1 ++ [r] else d_rcpts s1) (s_sender s1) (Some d') (s_err s1)
                                           (s_permits s1) (n_txn s1) ni lg, if ok then ROk else RFail)
                              end))).
    { intros s1 HL1 d Ed. destruct (mem r (chk_rcpt c)); [exact HL1|].
      destruct (route_of c r) as [|t0 ts0] eqn:Er; [exact HL1|].
      destruct (add_targets c (pd_txn d) (pd_open d) (n_inst s1) (log s1) r (t0 :: ts0)) as [[[open ni] lg] ok] eqn:Ea.
      unfold Link in HL1. rewrite Ed in HL1. destruct HL1 as [Hc Hl].
      destruct (add_targets_link _ _ _ _ _ _ _ _ _ _ Ea Hc) as [A [B C]].
      unfold Link. cbn [fst upd s_deliv d_rcpts pd_open]. split; [exact A|].
      intros r0 Hr0 t Ht. destruct ok.
      - apply in_app_iff in Hr0. destruct Hr0 as [Hr0|[->|[]]]; [apply B; exact (Hl r0 Hr0 t Ht)|].
        rewrite Er in Ht. exact (C eq_refl t Ht).
      - apply B. exact (Hl r0 Hr0 t Ht). }
    destruct (s_deliv s) as [d|] eqn:Ed.
    - rewrite Ed. exact (Hst s HL d Ed).
    - destruct (s_err s); [exact HL|].
      unfold start_delivery. destruct (mem (s_sender s) (bad_senders c)).
      { cbn. unfold Link in *. cbn. rewrite Ed in *. exact HL. }
      destruct (mem (s_sender s) (chk_start c)).
      { cbn. unfold Link in *. cbn. rewrite Ed in *. exact HL. }
      set (s1 := upd s (d_from s) (d_rcpts s) (s_sender s) (Some {| pd_txn := n_txn s; pd_open := []; pd_failed := false |})
                     (s_err s) (s_sender s :: s_permits s) (n_txn s + 1) (n_inst s) (log s)).
      assert (HL1 : Link s1).
      { unfold Link in *. cbn. rewrite Ed in HL. split; [intros o []|]. rewrite HL. intros r0 []. }
      exact (Hst s1 HL1 _ eq_refl).
  Qed.

  Lemma link_do_data s rd : Link s -> Link (fst (do_data c s rd)).
  Proof.
    intros HL. unfold do_data.
    destruct (negb (d_from s) || match d_rcpts s with [] => true | _ => false end); [exact HL|].
    destruct (s_deliv s) as [d|]; [|apply link_drv_reset].
    destruct (negb rd); [apply link_drv_reset|].
    destruct (lmtp c).
    - destruct (chk_body c).
      + destruct (commit_all c (pd_txn d) (pd_open d) true false) as [ev ok]. apply link_drv_reset.
      + destruct (body_na c (pd_txn d) (pd_open d)) as [[ev1 open'] sts].
        destruct (commit_all c (pd_txn d) open' false false) as [ev2 cok]. apply link_drv_reset.
    - destruct (chk_body c); [apply link_drv_reset|].
      destruct (body_all c (pd_txn d) (pd_open d)) as [ev1 bok]. destruct (negb bok); [apply link_drv_reset|].
      destruct (commit_all c (pd_txn d) (pd_open d) false false) as [ev2 cok]. apply link_drv_reset.
  Qed.

  Definition quiet (k : cmd) : bool := match k with CEhlo | CQuit | CDrop => false | _ => true end.
  Lemma link_step s k : quiet k = true -> Link s -> Link (fst (step c s k)).
  Proof.
    destruct k; cbn [quiet step]; intros Hq HL; try discriminate.
    - apply link_do_mail; exact HL.
    - apply link_do_rcpt; exact HL.
    - apply link_do_data; exact HL.
    - apply link_drv_reset.
    - exact HL.
  Qed.
  Definition after (ks : list cmd) : st := fold_left (fun s k => fst (step c s k)) ks st0.
  Lemma link_after ks : forallb quiet ks = true -> Link (after ks).
  Proof.
    unfold after. assert (H : forall s, Link s -> forallb quiet ks = true -> Link (fold_left (fun s k => fst (step c s k)) ks s)).
    { induction ks as [|k ks IH]; intros s HL Hq; [exact HL|]. cbn [forallb] in Hq. apply andb_true_iff in Hq. destruct Hq as [Hk Hq].
      cbn [fold_left]. apply IH; [apply link_step; assumption|exact Hq]. }
    intros Hq. apply H; [exact link0|exact Hq].
  Qed.

  (* what "accepted" means: the driver lists a recipient exactly when its RCPT was answered with success *)
  Lemma rcpt_ok_listed s r s' : do_rcpt c s r = (s', ROk) -> d_rcpts s' = d_rcpts s ++ [r].
  Proof.
    unfold do_rcpt. destruct (d_from s); cbn [negb]; [|discriminate].
    assert (Hst : forall s1, d_rcpts s1 = d_rcpts s ->
              match s_deliv s1 with
              | None => (s1, RFail)
              | Some d =>
                  if mem r (chk_rcpt c) then (s1, RFail)
                  else match route_of c r with
                       | [] => (s1, RFail)
                       | ts => let '(open, ni, lg, ok) := add_targets c (pd_txn d) (pd_open d) (n_inst s1) (log s1) r ts in
                               let d' := {| pd_txn := pd_txn d; pd_open := open; pd_failed := pd_failed d |} in
                               (upd s1 (d_from s1) (if ok then d_rcpts s1 ++ [r] else d_rcpts s1) (s_sender s1) (Some d') (s_err s1)
                                    (s_permits s1) (n_txn s1) ni lg, if ok then ROk else RFail)
                       end
              end = (s', ROk) -> d_rcpts s' = d_rcpts s ++ [r]).
    { intros s1 E1. destruct (s_deliv s1) as [d|]; [|discriminate]. destruct (mem r (chk_rcpt c)); [discriminate|].
      destruct (route_of c r) as [|t0 ts0]; [discriminate|].
      destruct (add_targets c (pd_txn d) (pd_open d) (n_inst s1) (log s1) r (t0 :: ts0)) as [[[open ni] lg] ok].
      destruct ok; [|discriminate]. intros H. inversion H; subst. cbn. rewrite E1. reflexivity. }
    destruct (s_deliv s) as [d|] eqn:Ed.
    - intros H. exact (Hst s eq_refl H).
    - destruct (s_err s); [discriminate|]. unfold start_delivery.
      destruct (mem (s_sender s) (bad_senders c)); [discriminate|].
      destruct (mem (s_sender s) (chk_start c)); [discriminate|].
      intros H.
      exact (Hst (upd s (d_from s) (d_rcpts s) (s_sender s) (Some {| pd_txn := n_txn s; pd_open := []; pd_failed := false |})
                      (s_err s) (s_sender s :: s_permits s) (n_txn s + 1) (n_inst s) (log s)) eq_refl H).
  Qed.

  Lemma data_success s rd s' :
    Link s -> lmtp c = false -> do_data c s rd = (s', ROk) ->
    exists ev, log s' = log s ++ ev /\
      forall r, In r (d_rcpts s) -> forall t, In t (route_of c r) -> exists txn i, In (txn, t, i, ECommit true) ev.
  Proof.
    intros HL Hl. unfold do_data. rewrite Hl.
    destruct (negb (d_from s) || match d_rcpts s with [] => true | _ => false end); [discriminate|].
    unfold Link in HL. destruct (s_deliv s) as [d|] eqn:Ed; [|discriminate]. destruct HL as [Hc Hh].
    destruct (negb rd); [discriminate|]. destruct (chk_body c); [discriminate|].
    destruct (body_all c (pd_txn d) (pd_open d)) as [ev1 bok]. destruct (negb bok); [discriminate|].
    destruct (commit_all c (pd_txn d) (pd_open d) false false) as [ev2 cok] eqn:Ec.
    destruct cok; [|discriminate]. intros H. inversion H; subst s'. exists (ev1 ++ ev2). split.
    - unfold drv_reset, sess_abort, clean. cbn. reflexivity.
    - intros r Hr t Ht. destruct (Hh r Hr t Ht) as [o [Ho [Et _]]]. exists (pd_txn d), (od_i o). subst t.
      apply in_or_app. right. exact (proj2 (commit_all_ok c (pd_txn d) (pd_open d) false ev2 Ec) o Ho (Hc o Ho)).
  Qed.

  (* Over whole sessions: after any sequence of MAIL, RCPT, DATA, RSET and NOOP commands (no second
     EHLO inside the session: known finding 107 lives in the SMTP library), a DATA command answered
     with success has committed - in the events of this very step - a delivery on every target of
     every recipient accepted in the transaction. *)
  Theorem session_success_commits_every_recipient ks rd s' :
    lmtp c = false -> forallb quiet ks = true ->
    step c (after ks) (CData rd) = (s', ROk) ->
    exists ev, log s' = log (after ks) ++ ev /\
      forall r, In r (d_rcpts (after ks)) -> forall t, In t (route_of c r) ->
        exists txn i, In (txn, t, i, ECommit true) ev.
  Proof. intros Hl Hq E. cbn [step] in E. exact (data_success _ _ _ (link_after ks Hq) Hl E). Qed.
End Link.
