(* C03: LMTP sessions - a recipient answered with success has been committed on every one of its
   targets.  Proofs. *)
From Maddy Require Import Lib.Base Session.Model Session.Lemmas Session.Committed.
From Coq Require Import Lia.
Local Open Scope N_scope.

Section Cnt.
  Variable c : cfg.
  Hypothesis routes_nodup : forall r, NoDup (route_of c r).

  Definition cnt (open : list od) (t r : N) : nat :=
    match find (fun o => od_t o =? t) open with
    | Some o => count_occ_b N.eqb (od_rcpts o) r
    | None => 0%nat
    end.

  Lemma count_occ_b_app l1 l2 r : count_occ_b N.eqb (l1 ++ l2) r = (count_occ_b N.eqb l1 r + count_occ_b N.eqb l2 r)%nat.
  Proof. induction l1 as [|x l IH]; cbn; [reflexivity|]. rewrite IH. lia. Qed.

  (* appending r0 to the recipients of the deliveries of target t *)
  Definition bump (t r0 : N) (open : list od) : list od :=
    map (fun o' => if od_t o' =? t then {| od_t := t; od_i := od_i o'; od_rcpts := od_rcpts o' ++ [r0]; od_bodyfailed := od_bodyfailed o' |} else o') open.

  Lemma cnt_bump_other t r0 open t' r : t' <> t -> cnt (bump t r0 open) t' r = cnt open t' r.
  Proof.
    intros Hne. unfold cnt, bump. induction open as [|o open IH]; [reflexivity|]. cbn [map find].
    destruct (od_t o =? t) eqn:Et.
    - cbn [od_t]. apply N.eqb_eq in Et. assert (E1 : (t =? t') = false) by (apply N.eqb_neq; congruence).
      assert (E2 : (od_t o =? t') = false) by (apply N.eqb_neq; congruence). rewrite E1, E2. exact IH.
    - destruct (od_t o =? t'); [reflexivity|exact IH].
  Qed.
  Lemma cnt_bump_same t r0 open r :
    cnt (bump t r0 open) t r =
    match find (fun o => od_t o =? t) open with
    | Some _ => (cnt open t r + (if (r0 =? r)%N then 1 else 0))%nat
    | None => 0%nat
    end.
  Proof.
    unfold cnt, bump. induction open as [|o open IH]; [reflexivity|]. cbn [map find].
    destruct (od_t o =? t) eqn:Et.
    - cbn [od_t]. rewrite N.eqb_refl. cbn [od_rcpts]. rewrite count_occ_b_app. cbn. lia.
    - rewrite Et. exact IH.
  Qed.
  Lemma cnt_app_new open o t r :
    find (fun o' => od_t o' =? od_t o) open = None ->
    cnt (open ++ [o]) t r = if od_t o =? t then count_occ_b N.eqb (od_rcpts o) r else cnt open t r.
  Proof.
    intros Hn. unfold cnt. induction open as [|x open IH]; cbn [app find].
    - destruct (od_t o =? t); reflexivity.
    - cbn [find] in Hn. destruct (od_t x =? od_t o) eqn:Ex; [discriminate|].
      destruct (od_t x =? t) eqn:Et.
      + destruct (od_t o =? t) eqn:Eo; [|reflexivity]. apply N.eqb_eq in Et. apply N.eqb_eq in Eo. apply N.eqb_neq in Ex. congruence.
      + exact (IH Hn).
  Qed.

  Lemma add_targets_cnt txn r0 : forall ts open ni lg open' ni' lg' ok,
    add_targets c txn open ni lg r0 ts = (open', ni', lg', ok) -> NoDup ts ->
    (forall t r, r <> r0 -> cnt open' t r = cnt open t r) /\
    (forall t, ~ In t ts -> cnt open' t r0 = cnt open t r0) /\
    (ok = true -> forall t, In t ts -> cnt open' t r0 = S (cnt open t r0)) /\
    (ok = false -> forall pre t, ts = pre ++ [t] -> cnt open' t r0 = cnt open t r0).
  Proof.
    induction ts as [|t rest IH]; intros open ni lg open' ni' lg' ok E Hnd; cbn [add_targets] in E.
    - inversion E; subst. split; [auto|]. split; [auto|]. split; [intros _ t []|discriminate].
    - inversion Hnd as [|? ? Hnt Hnd']; subst.
      destruct (find (fun o => od_t o =? t) open) as [o|] eqn:Ef.
      + destruct (mem r0 (p_rcpt (plan_of c t))).
        * inversion E; subst. split; [auto|]. split; [auto|]. split; [discriminate|]. auto.
        * fold (bump t r0 open) in E. destruct (IH _ _ _ _ _ _ _ E Hnd') as [A [B [C D]]].
          assert (Hsame : forall r, cnt (bump t r0 open) t r = (cnt open t r + (if (r0 =? r)%N then 1 else 0))%nat).
          { intros r. rewrite cnt_bump_same, Ef. reflexivity. }
          split; [|split; [|split]].
          -- intros t' r Hr. rewrite (A t' r Hr). destruct (N.eq_dec t' t) as [->|Hne]; [|apply cnt_bump_other; exact Hne].
             rewrite Hsame. assert (E0 : (r0 =? r) = false) by (apply N.eqb_neq; congruence). rewrite E0. lia.
          -- intros t' Hnin. rewrite (B t'); [|intros H; apply Hnin; right; exact H].
             apply cnt_bump_other. intros ->. apply Hnin. left. reflexivity.
          -- intros Hok t' [->|Hin].
             ++ rewrite (B t' Hnt), Hsame, N.eqb_refl. lia.
             ++ rewrite (C Hok t' Hin). f_equal. apply cnt_bump_other. intros ->. contradiction.
          -- intros Hok pre t' Ets. destruct pre as [|p pre].
             ++ cbn in Ets. inversion Ets; subst. cbn [add_targets] in E. inversion E; subst; try discriminate.
             ++ cbn in Ets. injection Ets as Ep Erest. subst p. rewrite (D Hok pre t' Erest). apply cnt_bump_other.
                intros ->. apply Hnt. rewrite Erest. apply in_or_app. right. left. reflexivity.
      + destruct (p_start (plan_of c t)).
        * inversion E; subst. split; [auto|]. split; [auto|]. split; [discriminate|]. auto.
        * destruct (mem r0 (p_rcpt (plan_of c t))).
          -- inversion E; subst. assert (Hn : forall t' r, cnt (open ++ [{| od_t := t; od_i := ni; od_rcpts := []; od_bodyfailed := false |}]) t' r = cnt open t' r).
             { intros t' r. rewrite cnt_app_new by exact Ef. cbn [od_t od_rcpts]. destruct (t =? t') eqn:Et; [|reflexivity].
               apply N.eqb_eq in Et. subst t'. unfold cnt. rewrite Ef. reflexivity. }
             split; [intros; apply Hn|]. split; [intros; apply Hn|]. split; [discriminate|]. intros; apply Hn.
          -- set (o1 := {| od_t := t; od_i := ni; od_rcpts := [r0]; od_bodyfailed := false |}) in *.
             destruct (IH _ _ _ _ _ _ _ E Hnd') as [A [B [C D]]].
             assert (Hn : forall t' r, cnt (open ++ [o1]) t' r = if t =? t' then (if r0 =? r then 1%nat else 0%nat) else cnt open t' r).
             { intros t' r. rewrite cnt_app_new by exact Ef. cbn [o1 od_t od_rcpts]. destruct (t =? t'); [|reflexivity]. cbn. destruct (r0 =? r); reflexivity. }
             assert (H0 : forall r, cnt open t r = 0%nat) by (intros r; unfold cnt; rewrite Ef; reflexivity).
             split; [|split; [|split]].
             ++ intros t' r Hr. rewrite (A t' r Hr), Hn. destruct (t =? t') eqn:Et; [|reflexivity].
                apply N.eqb_eq in Et. subst t'. rewrite H0. assert (E0 : (r0 =? r) = false) by (apply N.eqb_neq; congruence). rewrite E0. reflexivity.
             ++ intros t' Hnin. rewrite (B t'); [|intros H; apply Hnin; right; exact H]. rewrite Hn.
                assert (E0 : (t =? t') = false) by (apply N.eqb_neq; intros ->; apply Hnin; left; reflexivity). rewrite E0. reflexivity.
             ++ intros Hok t' [->|Hin].
                ** rewrite (B t' Hnt), Hn, !N.eqb_refl, H0. reflexivity.
                ** rewrite (C Hok t' Hin), Hn. assert (E0 : (t =? t') = false) by (apply N.eqb_neq; intros ->; contradiction). rewrite E0. reflexivity.
             ++ intros Hok pre t' Ets. destruct pre as [|p pre].
                ** cbn in Ets. inversion Ets; subst. cbn [add_targets] in E. inversion E; subst; try discriminate.
                ** cbn in Ets. injection Ets as Ep Erest. subst p. rewrite (D Hok pre t' Erest), Hn.
                   assert (E0 : (t =? t') = false).
                   { apply N.eqb_neq. intros ->. apply Hnt. rewrite Erest. apply in_or_app. right. left. reflexivity. }
                   rewrite E0. reflexivity.
  Qed.

  Lemma sess_count_cnt open r :
    sess_count c open r = match rev (route_of c r) with [] => 0%nat | t :: _ => cnt open t r end.
  Proof. reflexivity. Qed.

  (* the driver lists an address as often as the session accepted it *)
  Definition Cnt (s : st) : Prop :=
    match s_deliv s with
    | Some d => forall r, count_occ_b N.eqb (d_rcpts s) r = sess_count c (pd_open d) r
    | None => True
    end.
  Definition LC (s : st) : Prop := Link c s /\ Cnt s.

  Lemma lc0 : LC st0.
  Proof. split; [apply link0|exact I]. Qed.

  Lemma rev_cons_last {A} (l : list A) t rest : rev l = t :: rest -> l = rev rest ++ [t].
  Proof. intros H. rewrite <- (rev_involutive l), H. reflexivity. Qed.

  Lemma cnt_do_rcpt s r0 : LC s -> Cnt (fst (do_rcpt c s r0)).
  Proof.
    intros [HL HC]. unfold do_rcpt. destruct (d_from s); cbn [negb]; [|exact HC].
    assert (Hst : forall s1, Cnt s1 -> forall d, s_deliv s1 = Some d ->
              Cnt (fst (if mem r0 (chk_rcpt c) then (s1, RFail)
                        else match route_of c r0 with
                             | [] => (s1, RFail)
                             | ts => let '(open, ni, lg, ok) := add_targets c (pd_txn d) (pd_open d) (n_inst s1) (log s1) r0 ts in
                                     let d' := {| pd_txn := pd_txn d; pd_open := open; pd_failed := pd_failed d |} in
                                     (upd s1 (d_from s1) (if ok then d_rcpts s1 ++ [r0] else d_rcpts s1) (s_sender s1) (Some d') (s_err s1)
                                          (s_permits s1) (n_txn s1) ni lg, if ok then ROk else RFail)
                             end))).
    { intros s1 HC1 d Ed. destruct (mem r0 (chk_rcpt c)); [exact HC1|].
      destruct (route_of c r0) as [|t0 ts0] eqn:Er; [exact HC1|].
      destruct (add_targets c (pd_txn d) (pd_open d) (n_inst s1) (log s1) r0 (t0 :: ts0)) as [[[open ni] lg] ok] eqn:Ea.
      assert (Hnd : NoDup (t0 :: ts0)) by (rewrite <- Er; apply routes_nodup).
      destruct (add_targets_cnt _ _ _ _ _ _ _ _ _ _ Ea Hnd) as [A [B [C D]]].
      unfold Cnt in HC1. rewrite Ed in HC1. unfold Cnt. cbn [fst upd s_deliv d_rcpts pd_open].
      intros r. rewrite sess_count_cnt. specialize (HC1 r). rewrite sess_count_cnt in HC1.
      destruct (N.eq_dec r r0) as [->|Hne].
      - rewrite Er in *. destruct (rev (t0 :: ts0)) as [|tl rl] eqn:Erev.
        { apply (f_equal (@length N)) in Erev. rewrite rev_length in Erev. discriminate. }
        pose proof (rev_cons_last _ _ _ Erev) as Hl.
        destruct ok.
        + rewrite count_occ_b_app, HC1. cbn. rewrite N.eqb_refl.
          rewrite (C eq_refl tl); [lia|]. rewrite Hl. apply in_or_app. right. left. reflexivity.
        + rewrite HC1. symmetry. exact (D eq_refl _ _ Hl).
      - assert (Hc : count_occ_b N.eqb (if ok then d_rcpts s1 ++ [r0] else d_rcpts s1) r = count_occ_b N.eqb (d_rcpts s1) r).
        { destruct ok; [|reflexivity]. rewrite count_occ_b_app. cbn. assert (E0 : (r0 =? r) = false) by (apply N.eqb_neq; congruence). rewrite E0. lia. }
        rewrite Hc, HC1. destruct (rev (route_of c r)) as [|tl rl]; [reflexivity|]. symmetry. apply A. exact Hne. }
    destruct (s_deliv s) as [d|] eqn:Ed.
    - rewrite Ed. exact (Hst s HC d Ed).
    - destruct (s_err s); [exact HC|].
      unfold start_delivery. destruct (mem (s_sender s) (bad_senders c)).
      { cbn. unfold Cnt in *. cbn. rewrite Ed in *. exact I. }
      destruct (mem (s_sender s) (chk_start c)).
      { cbn. unfold Cnt in *. cbn. rewrite Ed in *. exact I. }
      set (s1 := upd s (d_from s) (d_rcpts s) (s_sender s) (Some {| pd_txn := n_txn s; pd_open := []; pd_failed := false |})
                     (s_err s) (s_sender s :: s_permits s) (n_txn s + 1) (n_inst s) (log s)).
      assert (HC1 : Cnt s1).
      { unfold Cnt. cbn. unfold Link in HL. rewrite Ed in HL. rewrite HL. intros r. rewrite sess_count_cnt.
        destruct (rev (route_of c r)); reflexivity. }
      exact (Hst s1 HC1 _ eq_refl).
  Qed.

  Lemma cnt_drv_reset s : Cnt (drv_reset c s).
  Proof.
    unfold Cnt, drv_reset. cbn [upd s_deliv]. unfold sess_abort. destruct (s_deliv s) eqn:E; cbn [upd s_deliv]; [exact I|rewrite E; exact I].
  Qed.

  Lemma cnt_do_mail s sender : LC s -> Cnt (fst (do_mail c s sender)).
  Proof.
    intros [HL HC]. unfold do_mail. destruct (s_deliv s) eqn:E; [exact HC|].
    unfold Link in HL. rewrite E in HL.
    destruct (deferred c); [unfold Cnt; cbn; exact I|].
    unfold start_delivery. cbn [upd d_from d_rcpts s_sender s_deliv s_err s_permits n_txn n_inst log].
    destruct (mem sender (bad_senders c)); [unfold Cnt; cbn; exact I|].
    destruct (mem sender (chk_start c)); [unfold Cnt; cbn; exact I|].
    unfold Cnt. cbn. rewrite HL. intros r. rewrite sess_count_cnt. destruct (rev (route_of c r)); reflexivity.
  Qed.

  Lemma cnt_do_data s rd : Cnt s -> Cnt (fst (do_data c s rd)).
  Proof.
    intros HC. unfold do_data.
    destruct (negb (d_from s) || match d_rcpts s with [] => true | _ => false end); [exact HC|].
    destruct (s_deliv s) as [d|]; [|apply cnt_drv_reset].
    destruct (negb rd); [apply cnt_drv_reset|].
    destruct (lmtp c).
    - destruct (chk_body c).
      + destruct (commit_all c (pd_txn d) (pd_open d) true false) as [ev ok]. apply cnt_drv_reset.
      + destruct (body_na c (pd_txn d) (pd_open d)) as [[ev1 open'] sts].
        destruct (commit_all c (pd_txn d) open' false false) as [ev2 cok]. apply cnt_drv_reset.
    - destruct (chk_body c); [apply cnt_drv_reset|].
      destruct (body_all c (pd_txn d) (pd_open d)) as [ev1 bok]. destruct (negb bok); [apply cnt_drv_reset|].
      destruct (commit_all c (pd_txn d) (pd_open d) false false) as [ev2 cok]. apply cnt_drv_reset.
  Qed.

  Lemma lc_step s k : quiet k = true -> LC s -> LC (fst (step c s k)).
  Proof.
    intros Hq HLC. split; [apply link_step; [exact Hq|apply HLC]|].
    destruct k; cbn [quiet step] in *; try discriminate.
    - apply cnt_do_mail; exact HLC.
    - apply cnt_do_rcpt; exact HLC.
    - apply cnt_do_data; apply HLC.
    - apply cnt_drv_reset.
    - apply HLC.
  Qed.
  Lemma lc_after ks : forallb quiet ks = true -> LC (after c ks).
  Proof.
    unfold after. assert (H : forall s, LC s -> forallb quiet ks = true -> LC (fold_left (fun s k => fst (step c s k)) ks s)).
    { induction ks as [|k ks IH]; intros s HL Hq; [exact HL|]. cbn [forallb] in Hq. apply andb_true_iff in Hq. destruct Hq as [Hk Hq].
      cbn [fold_left]. apply IH; [apply lc_step; assumption|exact Hq]. }
    intros Hq. apply H; [exact lc0|exact Hq].
  Qed.

  (* with the counts in step every listed occurrence gets the status computed for its address *)
  Lemma lmtp_replies_all open v rest : forall l seen,
    (forall r, (count_occ_b N.eqb seen r + count_occ_b N.eqb l r)%nat = sess_count c open r) ->
    lmtp_replies c open v rest l seen = map (fun r => (r, v r)) l.
  Proof.
    induction l as [|r t IH]; intros seen H; [reflexivity|]. cbn [lmtp_replies map].
    assert (Hlt : Nat.ltb (count_occ_b N.eqb seen r) (sess_count c open r) = true).
    { apply Nat.ltb_lt. specialize (H r). cbn [count_occ_b] in H. rewrite N.eqb_refl in H. lia. }
    rewrite Hlt. f_equal. apply IH. intros x. specialize (H x). cbn [count_occ_b] in *. lia.
  Qed.

  Lemma count_pos_in l r : (0 < count_occ_b N.eqb l r)%nat -> In r l.
  Proof.
    induction l as [|x l IH]; cbn; [lia|]. destruct (N.eqb_spec x r) as [->|Hne]; [left; reflexivity|]. intros H. right. apply IH. lia.
  Qed.
  Lemma in_count_pos l r : In r l -> (0 < count_occ_b N.eqb l r)%nat.
  Proof.
    induction l as [|x l IH]; [intros []|]. intros [->|H]; cbn; [rewrite N.eqb_refl; lia|]. specialize (IH H). lia.
  Qed.

  (* Over whole LMTP sessions (no second LHLO inside the session, every recipient block naming a
     target once): a recipient whose reply to DATA is a success has been committed, in the events of
     this very step, on every one of its targets - whatever happened to the other recipients. *)
  Theorem lmtp_session_success_commits_own_targets ks rd s' per :
    lmtp c = true -> forallb quiet ks = true ->
    step c (after c ks) (CData rd) = (s', RData per) ->
    exists ev, log s' = log (after c ks) ++ ev /\
      forall r, In (r, true) per -> forall t, In t (route_of c r) -> exists txn i, In (txn, t, i, ECommit true) ev.
  Proof.
    intros Hl Hq. destruct (lc_after ks Hq) as [HL HC]. remember (after c ks) as s eqn:Es. clear Es Hq.
    cbn [step]. unfold do_data. rewrite Hl.
    destruct (negb (d_from s) || match d_rcpts s with [] => true | _ => false end); [discriminate|].
    unfold Link in HL. unfold Cnt in HC.
    destruct (s_deliv s) as [d|] eqn:Ed.
    2:{ intros H. inversion H; subst. exists []. split; [unfold drv_reset, sess_abort; cbn; rewrite Ed; cbn; rewrite app_nil_r; reflexivity|].
        intros r Hin. apply in_map_iff in Hin. destruct Hin as [x [Hx _]]. discriminate. }
    destruct HL as [Hc Hh].
    assert (Hall : forall v rest, lmtp_replies c (pd_open d) v rest (d_rcpts s) [] = map (fun r => (r, v r)) (d_rcpts s)).
    { intros v rest. apply lmtp_replies_all. intros r. cbn. exact (HC r). }
    destruct (negb rd).
    { intros H. inversion H; subst. exists (abort_events c d). split; [unfold drv_reset, sess_abort; cbn; rewrite Ed; cbn; reflexivity|].
      intros r Hin. apply in_map_iff in Hin. destruct Hin as [x [Hx _]]. discriminate. }
    destruct (chk_body c).
    - destruct (commit_all c (pd_txn d) (pd_open d) true false) as [ev ok] eqn:Eca. rewrite Hall. intros H. inversion H; subst.
      exists ev. split; [unfold drv_reset, sess_abort, clean; cbn; reflexivity|].
      intros r Hin. exfalso. apply in_map_iff in Hin. destruct Hin as [x [Hx Hin]]. injection Hx as Ex Hv. subst x.
      (* r is listed, so it is a recipient of the delivery of its last target *)
      pose proof (in_count_pos _ _ Hin) as Hpos. rewrite (HC r), sess_count_cnt in Hpos.
      destruct (rev (route_of c r)) as [|tl rl]; [lia|]. unfold cnt in Hpos.
      destruct (find (fun o => od_t o =? tl) (pd_open d)) as [o|] eqn:Ef; [|lia].
      apply find_some in Ef. destruct Ef as [Ho _]. apply count_pos_in in Hpos.
      assert (Hm : mem r (flat_map od_rcpts (pd_open d)) = true).
      { apply existsb_exists. exists r. split; [apply in_flat_map; exists o; split; assumption|apply N.eqb_refl]. }
      rewrite Hm in Hv. discriminate.
    - destruct (body_na c (pd_txn d) (pd_open d)) as [[ev1 open'] sts] eqn:Eb.
      destruct (commit_all c (pd_txn d) open' false false) as [ev2 cok] eqn:Eca. rewrite Hall. intros H. inversion H; subst.
      exists (ev1 ++ ev2). split; [unfold drv_reset, sess_abort, clean; cbn; reflexivity|].
      intros r Hin t Ht. apply in_map_iff in Hin. destruct Hin as [x [Hx Hin]]. injection Hx as Ex Hv. subst x.
      destruct (Hh r Hin t Ht) as [o [Ho [Et Hr]]]. exists (pd_txn d), (od_i o). subst t. apply in_or_app. right.
      exact (proj2 (lmtp_success_means_committed c _ _ _ _ _ _ _ r Eb Eca Hv o Ho Hr (Hc o Ho))).
  Qed.
End Cnt.
