(* C03: an SMTP / LMTP session of the endpoint: the go-smtp driver (which Session callbacks a
   command causes), Session (Mail, Rcpt with deferred start, Data, LMTPData, Reset, Logout, abort,
   cleanSession, limits), msgpipelineDelivery (getDelivery, AddRcpt fan-out, Body, BodyNonAtomic,
   Commit, Abort) and targets as typestate automata with a failure plan.  Definitions only. *)
From Maddy Require Export Lib.Base.
Local Open Scope N_scope.

Inductive tev := EStart (ok : bool) | EAdd (r : N) (ok : bool) | EBody (ok : bool) | EBodyNA (ok : bool)
               | ECommit (ok : bool) | EAbort (ok : bool).
Definition event := (N * N * N * tev)%type.     (* transaction, target, delivery instance, call *)

Record tplan := { p_start : bool; p_rcpt : list N; p_body : bool; p_commit : bool; p_abort : bool;   (* which calls fail *)
                  p_partial : bool }.                                       (* implements PartialDelivery *)
Definition tplan0 : tplan := {| p_start := false; p_rcpt := []; p_body := false; p_commit := false; p_abort := false; p_partial := false |}.

Record cfg := { lmtp : bool; deferred : bool;
                routes : list (N * list N);          (* recipient -> targets, in deliver_to order *)
                plans : list (N * tplan);
                chk_start : list N;                  (* senders a check refuses at MAIL *)
                chk_rcpt : list N;                   (* recipients a check refuses *)
                chk_body : bool;                     (* a check or modifier fails the body *)
                bad_senders : list N }.              (* senders startDelivery cannot normalize *)
Definition plan_of (c : cfg) (t : N) : tplan := match alookup N.eqb t (plans c) with Some p => p | None => tplan0 end.
Definition route_of (c : cfg) (r : N) : list N := match alookup N.eqb r (routes c) with Some l => l | None => [] end.
Definition mem (x : N) (l : list N) : bool := existsb (N.eqb x) l.

(* one open delivery of the pipeline *)
Record od := { od_t : N; od_i : N; od_rcpts : list N; od_bodyfailed : bool }.
Record pd := { pd_txn : N; pd_open : list od; pd_failed : bool }.

Record st := {
  d_from : bool; d_rcpts : list N;                 (* go-smtp: fromReceived, recipients *)
  s_sender : N;                                    (* Session.mailFrom *)
  s_deliv : option pd; s_err : bool;               (* Session.delivery, deliveryErr *)
  s_permits : list N;                              (* limit permits held, by sender *)
  n_txn : N; n_inst : N; log : list event }.
Definition st0 : st := {| d_from := false; d_rcpts := []; s_sender := 0; s_deliv := None; s_err := false;
                          s_permits := []; n_txn := 0; n_inst := 0; log := [] |}.

Inductive cmd := CMail (sender : N) | CRcpt (r : N) | CData (readable : bool) | CRset | CNoop | CEhlo | CQuit | CDrop.
Inductive reply := ROk | RFail | RData (per : list (N * bool)) | RNone.

Definition upd (s : st) (f : bool) (rc : list N) (snd_ : N) (d : option pd) (e : bool) (pm : list N)
           (nt ni : N) (lg : list event) : st :=
  {| d_from := f; d_rcpts := rc; s_sender := snd_; s_deliv := d; s_err := e; s_permits := pm;
     n_txn := nt; n_inst := ni; log := lg |}.

Fixpoint remove1 (x : N) (l : list N) : list N :=
  match l with [] => [] | y :: t => if x =? y then t else y :: remove1 x t end.

Section Sess.
  Variable c : cfg.

  (* msgpipelineDelivery.Abort: every open delivery, failures ignored *)
  Definition abort_events (d : pd) : list event :=
    map (fun o => (pd_txn d, od_t o, od_i o, EAbort (negb (p_abort (plan_of c (od_t o)))))) (pd_open d).

  (* Session.abort + cleanSession *)
  Definition sess_abort (s : st) : st :=
    match s_deliv s with
    | None => s
    | Some d => upd s (d_from s) (d_rcpts s) 0 None false (remove1 (s_sender s) (s_permits s))
                    (n_txn s) (n_inst s) (log s ++ abort_events d)
    end.
  (* Session.Reset as called by go-smtp's reset() *)
  Definition drv_reset (s : st) : st :=
    let s1 := sess_abort s in
    upd s1 false [] (s_sender s1) (s_deliv s1) false (s_permits s1) (n_txn s1) (n_inst s1) (log s1).

  (* Session.startDelivery: limits, then pipeline Start *)
  Definition start_delivery (s : st) (sender : N) : st * bool :=
    if mem sender (bad_senders c) then (s, false)
    else if mem sender (chk_start c) then (s, false)          (* permit taken and returned *)
    else (upd s (d_from s) (d_rcpts s) sender (Some {| pd_txn := n_txn s; pd_open := []; pd_failed := false |})
              (s_err s) (sender :: s_permits s) (n_txn s + 1) (n_inst s) (log s), true).

  (* msgpipelineDelivery.AddRcpt over the targets of the recipient's block *)
  Fixpoint add_targets (txn : N) (open : list od) (ni : N) (lg : list event) (r : N) (ts : list N)
    : list od * N * list event * bool :=
    match ts with
    | [] => (open, ni, lg, true)
    | t :: rest =>
        let p := plan_of c t in
        match find (fun o => od_t o =? t) open with
        | Some o =>
            if mem r (p_rcpt p) then (open, ni, lg ++ [(txn, t, od_i o, EAdd r false)], false)
            else add_targets txn
                   (map (fun o' => if od_t o' =? t then {| od_t := t; od_i := od_i o'; od_rcpts := od_rcpts o' ++ [r]; od_bodyfailed := od_bodyfailed o' |} else o') open)
                   ni (lg ++ [(txn, t, od_i o, EAdd r true)]) r rest
        | None =>
            if p_start p then (open, ni + 1, lg ++ [(txn, t, ni, EStart false)], false)
            else
              let lg1 := lg ++ [(txn, t, ni, EStart true)] in
              if mem r (p_rcpt p) then
                (open ++ [{| od_t := t; od_i := ni; od_rcpts := []; od_bodyfailed := false |}], ni + 1, lg1 ++ [(txn, t, ni, EAdd r false)], false)
              else add_targets txn (open ++ [{| od_t := t; od_i := ni; od_rcpts := [r]; od_bodyfailed := false |}])
                               (ni + 1) (lg1 ++ [(txn, t, ni, EAdd r true)]) r rest
        end
    end.

  Definition do_rcpt (s : st) (r : N) : st * reply :=
    if negb (d_from s) then (s, RFail)
    else
      let started :=
        match s_deliv s with
        | Some _ => (s, true)
        | None => if s_err s then (s, false)
                  else match start_delivery s (s_sender s) with
                       | (s', true) => (s', true)
                       | (s', false) => (upd s' (d_from s') (d_rcpts s') (s_sender s') (s_deliv s') true (s_permits s')
                                             (n_txn s') (n_inst s') (log s'), false)
                       end
        end in
      match started with
      | (s1, false) => (s1, RFail)
      | (s1, true) =>
        match s_deliv s1 with
        | None => (s1, RFail)
        | Some d =>
            if mem r (chk_rcpt c) then (s1, RFail)
            else match route_of c r with
                 | [] => (s1, RFail)                                  (* no block: refused by the pipeline *)
                 | ts =>
                   let '(open, ni, lg, ok) := add_targets (pd_txn d) (pd_open d) (n_inst s1) (log s1) r ts in
                   let d' := {| pd_txn := pd_txn d; pd_open := open; pd_failed := pd_failed d |} in
                   (upd s1 (d_from s1) (if ok then d_rcpts s1 ++ [r] else d_rcpts s1) (s_sender s1) (Some d') (s_err s1)
                        (s_permits s1) (n_txn s1) ni lg,
                    if ok then ROk else RFail)
                 end
        end
      end.

  (* go-smtp passes every MAIL to the session; Session.Mail refuses it inside an open
     transaction; before the first RCPT of a deferred start it replaces the sender *)
  Definition do_mail (s : st) (sender : N) : st * reply :=
    match s_deliv s with
    | Some _ => (s, RFail)
    | None =>
      let s0 := upd s (d_from s) (d_rcpts s) (s_sender s) None false (s_permits s) (n_txn s) (n_inst s) (log s) in
      if deferred c then
        (upd s0 true (d_rcpts s0) sender None false (s_permits s0) (n_txn s0) (n_inst s0) (log s0), ROk)
      else match start_delivery s0 sender with
           | (s', true) => (upd s' true (d_rcpts s') (s_sender s') (s_deliv s') (s_err s') (s_permits s') (n_txn s') (n_inst s') (log s'), ROk)
           | (s', false) => (s', RFail)
           end
    end.

  (* atomic Body over the open deliveries until the first failure *)
  Fixpoint body_all (txn : N) (open : list od) : list event * bool :=
    match open with
    | [] => ([], true)
    | o :: rest =>
        if p_body (plan_of c (od_t o)) then ([(txn, od_t o, od_i o, EBody false)], false)
        else let '(ev, ok) := body_all txn rest in ((txn, od_t o, od_i o, EBody true) :: ev, ok)
    end.
  (* Commit: the first failure turns the rest into aborts; deliveries whose body failed on the
     per-recipient path, or all of them when the message failed as a whole, are aborted *)
  Fixpoint commit_all (txn : N) (open : list od) (all_failed : bool) (broken : bool) : list event * bool :=
    match open with
    | [] => ([], negb broken)
    | o :: rest =>
        let p := plan_of c (od_t o) in
        if broken || all_failed || od_bodyfailed o then
          let '(ev, ok) := commit_all txn rest all_failed broken in
          ((txn, od_t o, od_i o, EAbort (negb (p_abort p))) :: ev, ok)
        else
          let '(ev, ok) := commit_all txn rest all_failed (p_commit p) in
          ((txn, od_t o, od_i o, ECommit (negb (p_commit p))) :: ev, ok)
    end.

  (* BodyNonAtomic over the open deliveries: events, the deliveries afterwards, statuses set *)
  Fixpoint body_na (txn : N) (open : list od) : list event * list od * list (N * bool) :=
    match open with
    | [] => ([], [], [])
    | o :: rest =>
        let p := plan_of c (od_t o) in
        let '(ev, os, sts) := body_na txn rest in
        if p_partial p then
          ((txn, od_t o, od_i o, EBodyNA (negb (p_body p))) :: ev, o :: os,
           map (fun r => (r, negb (p_body p))) (od_rcpts o) ++ sts)
        else if p_body p then
          ((txn, od_t o, od_i o, EBody false) :: ev,
           {| od_t := od_t o; od_i := od_i o; od_rcpts := od_rcpts o; od_bodyfailed := true |} :: os,
           map (fun r => (r, false)) (od_rcpts o) ++ sts)
        else ((txn, od_t o, od_i o, EBody true) :: ev, o :: os, sts)
    end.

  Definition clean (s : st) (lg : list event) : st :=
    upd s (d_from s) (d_rcpts s) 0 None false (remove1 (s_sender s) (s_permits s)) (n_txn s) (n_inst s) lg.

  (* LMTP replies.  The session knows the recipients it accepted itself (as often as it accepted
     them); the driver (go-smtp) may list more - those of a session replaced by a repeated LHLO.
     go-smtp hands the statuses it was given for an address to the occurrences of that address in
     its own list, in order, and fills what is left with the result of LMTPData ([rest]). *)
  Definition sess_count (open : list od) (r : N) : nat :=
    match rev (route_of c r) with
    | [] => 0%nat
    | t :: _ => match find (fun o => od_t o =? t) open with
                | Some o => count_occ_b N.eqb (od_rcpts o) r
                | None => 0%nat
                end
    end.
  Fixpoint lmtp_replies (open : list od) (v : N -> bool) (rest : bool) (l seen : list N) : list (N * bool) :=
    match l with
    | [] => []
    | r :: t =>
        (r, if Nat.ltb (count_occ_b N.eqb seen r) (sess_count open r) then v r else rest)
          :: lmtp_replies open v rest t (r :: seen)
    end.

  Definition do_data (s : st) (readable : bool) : st * reply :=
    if negb (d_from s) || match d_rcpts s with [] => true | _ => false end then (s, RFail)
    else
      match s_deliv s with
      | None => (drv_reset s, if lmtp c then RData (map (fun r => (r, false)) (d_rcpts s)) else RFail)   (* after a repeated EHLO *)
      | Some d =>
        if negb readable then (drv_reset s, if lmtp c then RData (map (fun r => (r, false)) (d_rcpts s)) else RFail)
        else if lmtp c then
          if chk_body c then
            let '(ev, _) := commit_all (pd_txn d) (pd_open d) true false in
            (* statuses are set for the recipients of the open deliveries; the driver may still
               list recipients of a session replaced by a repeated LHLO: they get the (nil) result *)
            (drv_reset (clean s (log s ++ ev)),
             RData (lmtp_replies (pd_open d) (fun r => negb (mem r (flat_map od_rcpts (pd_open d)))) true (d_rcpts s) []))
          else
            let '(ev1, open', sts) := body_na (pd_txn d) (pd_open d) in
            let '(ev2, cok) := commit_all (pd_txn d) open' false false in
            (drv_reset (clean s (log s ++ ev1 ++ ev2)),
             (* one reply per accepted RCPT, held back until Commit has returned: the first failure
                reported for the recipient by any of its targets, otherwise the result of Commit *)
             RData (lmtp_replies (pd_open d) (fun r => forallb (fun x : N * bool => negb (fst x =? r) || snd x) sts && cok) cok (d_rcpts s) []))
        else
          if chk_body c then (drv_reset (clean s (log s ++ abort_events d)), RFail)
          else
            let '(ev1, bok) := body_all (pd_txn d) (pd_open d) in
            if negb bok then (drv_reset (clean s (log s ++ ev1 ++ abort_events d)), RFail)
            else let '(ev2, cok) := commit_all (pd_txn d) (pd_open d) false false in
                 (drv_reset (clean s (log s ++ ev1 ++ ev2)), if cok then ROk else RFail)
      end.

  (* a repeated EHLO: the old session is logged out, a fresh one takes over; the driver keeps
     its MAIL / RCPT state *)
  Definition do_ehlo (s : st) : st :=
    let s1 := sess_abort s in
    upd s1 (d_from s1) (d_rcpts s1) 0 None false (s_permits s1) (n_txn s1) (n_inst s1) (log s1).

  Definition step (s : st) (k : cmd) : st * reply :=
    match k with
    | CMail sender => do_mail s sender
    | CRcpt r => do_rcpt s r
    | CData rd => do_data s rd
    | CRset => (drv_reset s, ROk)
    | CNoop => (s, ROk)
    | CEhlo => (do_ehlo s, ROk)
    | CQuit => (sess_abort s, ROk)
    | CDrop => (sess_abort s, RNone)
    end.

  Definition ends (k : cmd) : bool := match k with CQuit | CDrop => true | _ => false end.
  (* commands up to QUIT or the loss of the connection; a session that just stops is dropped *)
  Fixpoint run (s : st) (ks : list cmd) : st * list reply :=
    match ks with
    | [] => (sess_abort s, [])
    | k :: rest =>
        let '(s', r) := step s k in
        if ends k then (s', [r]) else let '(s'', rs) := run s' rest in (s'', r :: rs)
    end.
End Sess.
