(* C16 correspondence and monitor: evaluated by coqc on cases written by the Go harness. *)
From Maddy Require Export Lib.Base Err.Model.
Local Open Scope Z_scope.

(* what the implementation returned for one error value *)
Record obs := {
  o_is_temp : bool; o_is_temp_unspec : bool;
  o_wrap : reply;            (* wrapErr(msgid, mangle, "X", e) then writeResponse, as parsed from the wire *)
  o_queue : reply;           (* toSMTPErr(e) *)
  o_code : Z; o_ench : ench  (* SMTPCode(e,450,550), SMTPEnchCode(e,{0,4,4}) *)
}.
Record case := { c_msgid : str; c_mangle : bool; c_err : err; c_obs : obs }.

Definition reply_eqb (a b : reply) : bool :=
  (Z.eqb (r_code a) (r_code b) && ench_eqb (r_ench a) (r_ench b) && str_eqb (r_msg a) (r_msg b))%bool.

Definition model_obs (c : case) : obs :=
  let e := c_err c in
  {| o_is_temp := is_temp e; o_is_temp_unspec := is_temp_or_unspec e;
     o_wrap := on_wire (wrap_err (c_msgid c) (c_mangle c) e);
     o_queue := to_smtp_err e;
     o_code := smtp_code e 450 550;
     o_ench := smtp_ench_code e {| e0 := 0; e1 := 4; e2 := 4 |} |}.

Definition obs_eqb (a b : obs) : bool :=
  (Bool.eqb (o_is_temp a) (o_is_temp b) && Bool.eqb (o_is_temp_unspec a) (o_is_temp_unspec b)
   && reply_eqb (o_wrap a) (o_wrap b) && reply_eqb (o_queue a) (o_queue b)
   && Z.eqb (o_code a) (o_code b) && ench_eqb (o_ench a) (o_ench b))%bool.

Definition agrees (c : case) : bool := obs_eqb (model_obs c) (c_obs c).
Definition mismatches (cs : list case) : list N := find_idx (fun c => negb (agrees c)) cs.

(* the property evaluated on what the implementation did, independent of the model of the
   conversions: clause numbers name the part of C16 that fails *)
Definition monitor (c : case) : list N :=
  let e := c_err c in let o := c_obs c in
  let w := o_wrap o in let q := o_queue o in
  (if wa e && negb (coherent w) then [1%N] else []) ++
  (if wa e && negb (coherent q) then [2%N] else []) ++
  (if wa e && negb (has_deadline e) && negb (Bool.eqb (Z.eqb (cls (r_code w)) 4) (o_is_temp o)) then [3%N] else []) ++
  (if wa e && negb (Bool.eqb (Z.eqb (cls (r_code q)) 4) (o_is_temp_unspec o)) then [4%N] else []) ++
  (if c_mangle c && negb (ascii_only (r_msg w)) then [5%N] else []) ++
  (if wa e && negb (has_deadline e) && match annot e with None => true | _ => false end
      && match e with EGoSmtp _ _ _ => false | _ => true end
      && negb (str_eqb (r_msg w) (with_msgid (c_msgid c) generic_msg)) then [6%N] else []) ++
  (if negb (coherent {| r_code := o_code o; r_ench := o_ench o; r_msg := [] |}) then [7%N] else []) ++
  (if negb (Bool.eqb (Z.eqb (cls (o_code o)) 4) (o_is_temp o)) then [8%N] else []).

Definition monitor_failures (cs : list case) : list (N * list N) :=
  let fix go (i : N) (l : list case) :=
    match l with
    | [] => []
    | c :: t => match monitor c with [] => go (N.succ i) t | cl => (i, cl) :: go (N.succ i) t end
    end in go 0%N cs.

(* coverage tags reported into the evidence *)
Definition tag (c : case) : N :=
  let e := c_err c in
  (if wa e then 1 else 0) + (if has_deadline e then 2 else 0)
  + (match annot e with Some _ => 4 | None => 0 end)
  + (if is_temp e then 8 else 0) + (match first_temporary e with None => 16 | _ => 0 end)%N.
Definition tags (cs : list case) : list N := map tag cs.
