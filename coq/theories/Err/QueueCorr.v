(* C16 correspondence and monitor for the queue stream: successive failing delivery attempts of one
   queued message; what the queue recorded after each and whether it tried again. *)
From Maddy Require Export Lib.Base Err.Model.
Local Open Scope Z_scope.

(* one failed attempt: the error, what was recorded (reply, and whether its text is known: spool
   metadata = true, failure report = codes only), and whether another attempt followed *)
Definition attempt := (err * option (reply * bool) * bool)%type.
Record case := { q_max_tries : N; q_attempts : list attempt; q_reports : N }.

Definition stored_eqb (m : reply) (o : option (reply * bool)) : bool :=
  match o with
  | None => false
  | Some (r, full) =>
      (Z.eqb (r_code m) (r_code r) && ench_eqb (r_ench m) (r_ench r)
       && (negb full || str_eqb (r_msg m) (r_msg r)))%bool
  end.

Fixpoint attempts_agree (mt : N) (i : N) (l : list attempt) : bool :=
  match l with
  | [] => true
  | (e, st, retried) :: t =>
      (stored_eqb (to_smtp_err e) st
       && Bool.eqb retried (is_temp_or_unspec e && (i + 1 <? mt)%N)
       && attempts_agree mt (i + 1)%N t)%bool
  end.

Definition given_up (l : list attempt) : N := N.of_nat (length (filter (fun a : attempt => negb (snd a)) l)).

Definition agrees (c : case) : bool :=
  (attempts_agree (q_max_tries c) 0%N (q_attempts c) && N.eqb (q_reports c) (given_up (q_attempts c)))%bool.
Definition mismatches (cs : list case) : list N := find_idx (fun c => negb (agrees c)) cs.

(* the property on what the queue did, independent of the model of the conversion *)
Fixpoint mon_attempts (mt : N) (i : N) (l : list attempt) : list N :=
  match l with
  | [] => []
  | (e, st, retried) :: t =>
      (if wa e then
         match st with
         | None => [13%N]                                        (* nothing recorded for a failed recipient *)
         | Some (r, _) =>
             (if coherent r then [] else [2%N]) ++
             (if retried then (if Z.eqb (cls (r_code r)) 4 then [] else [12%N])
              else if (i + 1 <? mt)%N then (if Z.eqb (cls (r_code r)) 5 then [] else [12%N])
                   else [])                                      (* given up after the last permitted try *)
         end
       else []) ++ mon_attempts mt (i + 1)%N t
  end.

Definition monitor (c : case) : list N := mon_attempts (q_max_tries c) 0%N (q_attempts c).
Definition monitor_failures (cs : list case) : list (N * list N) :=
  let fix go (i : N) (l : list case) :=
    match l with
    | [] => []
    | c :: t => match monitor c with [] => go (N.succ i) t | cl => (i, cl) :: go (N.succ i) t end
    end in go 0%N cs.

Definition tag (c : case) : N :=
  (N.of_nat (length (q_attempts c)) + (if N.eqb (q_reports c) 0 then 0 else 8)
   + (if existsb (fun a : attempt => snd a) (q_attempts c) then 16 else 0))%N.
Definition tags (cs : list case) : list N := map tag cs.
