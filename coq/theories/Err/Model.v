(* C16 (shared with C01, C18): executable model of maddy's error values and of the two
   conversions of an error into an SMTP reply:
     framework/exterrors/{smtp,temporary,fields}.go
     internal/endpoint/smtp/session.go : wrapErr   (+ go-smtp writeResponse class fill-in)
     internal/target/queue/queue.go    : toSMTPErr
   Definitions only; proofs are in Err/Lemmas.v. *)
From Maddy Require Export Lib.Base.
From Coq Require Import String Ascii.
Local Open Scope Z_scope.

Definition s_ (x : string) : str := map N_of_ascii (list_ascii_of_string x).

Record ench := { e0 : Z; e1 : Z; e2 : Z }.
Definition ench_eqb (a b : ench) : bool :=
  (Z.eqb (e0 a) (e0 b) && Z.eqb (e1 a) (e1 b) && Z.eqb (e2 a) (e2 b))%bool.
Definition ench_notset : ench := {| e0 := 0; e1 := 0; e2 := 0 |}.     (* smtp.EnhancedCodeNotSet *)
Definition ench_none : ench := {| e0 := -1; e1 := -1; e2 := -1 |}.    (* smtp.NoEnhancedCode *)

(* keys of the exterrors.Fields map that matter; everything else is KOther *)
Inductive fkey := KCode | KEnch | KMsg | KOther (n : N).
Definition fkey_eqb (a b : fkey) : bool :=
  match a, b with
  | KCode, KCode | KEnch, KEnch | KMsg, KMsg => true
  | KOther x, KOther y => N.eqb x y
  | _, _ => false
  end.

(* dynamic type of a field value *)
Inductive fval :=
| FInt (z : Z)            (* int *)
| FEnchExt (e : ench)     (* exterrors.EnhancedCode *)
| FEnchGo (e : ench)      (* smtp.EnhancedCode *)
| FStr (s : str)          (* string *)
| FNil                    (* nil interface *)
| FOther.

Definition is_annot_key (k : fkey) : bool :=
  match k with KOther _ => false | _ => true end.

Inductive err :=
| EPlain                                              (* errors.New / fmt.Errorf without %w *)
| EWrapW (inner : err)                                (* fmt.Errorf("...%w"): Unwrap only *)
| ESmtp (code : Z) (e : ench) (msg : str) (misc : list (fkey * fval)) (inner : option err)
                                                      (* *exterrors.SMTPError *)
| EGoSmtp (code : Z) (e : ench) (msg : str)           (* *smtp.SMTPError: Temporary only *)
| ETemp (b : bool) (inner : err)                      (* exterrors.WithTemporary *)
| EFields (kv : list (fkey * fval)) (inner : err)     (* exterrors.WithFields *)
| ENet (temp : bool)                                  (* an error with Temporary() and nothing else *)
| EDeadline.                                          (* context.DeadlineExceeded: Temporary() = true *)

(* one step of the Unwrap chain as errors.As / errors.Is / exterrors.Fields follow it *)
Definition unwrap (e : err) : option err :=
  match e with
  | EWrapW i | ETemp _ i | EFields _ i => Some i
  | ESmtp _ _ _ _ i => i
  | _ => None
  end.

(* errors.As(err, &TemporaryErr): first element of the chain implementing Temporary() *)
Fixpoint first_temporary (e : err) : option bool :=
  match e with
  | EPlain => None
  | EWrapW i => first_temporary i
  | ESmtp code _ _ _ _ => Some (Z.eqb (code / 100) 4)
  | EGoSmtp code _ _ => Some (Z.eqb (code / 100) 4)
  | ETemp b _ => Some b
  | EFields _ i => first_temporary i
  | ENet t => Some t
  | EDeadline => Some true
  end.

Definition is_temp (e : err) : bool :=
  match first_temporary e with Some b => b | None => false end.
Definition is_temp_or_unspec (e : err) : bool :=
  match first_temporary e with Some b => b | None => true end.

(* errors.Is(err, context.DeadlineExceeded) *)
Fixpoint has_deadline (e : err) : bool :=
  match e with
  | EDeadline => true
  | EWrapW i | ETemp _ i | EFields _ i => has_deadline i
  | ESmtp _ _ _ _ (Some i) => has_deadline i
  | _ => false
  end.

(* SMTPError.Fields(): Misc first, then the three annotation keys overwrite *)
Definition smtp_fields (code : Z) (e : ench) (msg : str) (misc : list (fkey * fval))
  : list (fkey * fval) :=
  [(KCode, FInt code); (KEnch, FEnchExt e); (KMsg, FStr msg)]
    ++ filter (fun kv => negb (is_annot_key (fst kv))) misc.

(* exterrors.Fields: levels of the chain, outermost first *)
Fixpoint fields (e : err) : list (fkey * fval) :=
  match e with
  | EWrapW i | ETemp _ i => fields i
  | EFields kv i => kv ++ fields i
  | ESmtp code en msg misc i =>
      smtp_fields code en msg misc ++ match i with Some i' => fields i' | None => [] end
  | _ => []
  end.

(* "if fields[k] != nil { continue }": the first binding whose value is not the nil
   interface wins *)
Fixpoint flookup (k : fkey) (l : list (fkey * fval)) : option fval :=
  match l with
  | [] => None
  | (k', v) :: t =>
      if fkey_eqb k k' then match v with FNil => flookup k t | _ => Some v end
      else flookup k t
  end.

Record reply := { r_code : Z; r_ench : ench; r_msg : str }.

Definition generic_msg : str := s_ "Internal server error".
Definition highload_msg : str := s_ "High load, try again later".

(* non-ASCII replacement in wrapErr (after the fix: every code point above 127) *)
Definition mangle_msg (m : str) : str :=
  map (fun c => if N.ltb 127%N c then 63%N else c) m.

Definition with_msgid (msgid m : str) : str :=
  match msgid with
  | [] => m
  | _ => m ++ s_ " (msg ID = " ++ msgid ++ s_ ")"
  end.

(* session.go wrapErr, for a non-nil error *)
Definition wrap_err (msgid : str) (mangle : bool) (e : err) : reply :=
  if has_deadline e then
    {| r_code := 451; r_ench := {| e0 := 4; e1 := 4; e2 := 5 |}; r_msg := highload_msg |}
  else
    let c0 := if is_temp e then 451 else 554 in
    let f := fields e in
    let c1 := match flookup KCode f with Some (FInt z) => z | _ => c0 end in
    let en1 := match flookup KEnch f with Some (FEnchExt x) => x | _ => ench_notset end in
    let m1 := match flookup KMsg f with Some (FStr x) => x | _ => generic_msg end in
    let '(c2, en2, m2) :=
      match e with EGoSmtp c x m => (c, x, m) | _ => (c1, en1, m1) end in
    let m3 := with_msgid msgid m2 in
    {| r_code := c2; r_ench := en2; r_msg := if mangle then mangle_msg m3 else m3 |}.

(* go-smtp Conn.writeResponse: a reply without enhanced code gets X.0.0 of its class *)
Definition fill_ench (code : Z) (e : ench) : ench :=
  if ench_eqb e ench_notset then
    let cat := code / 100 in
    if (Z.eqb cat 2 || Z.eqb cat 4 || Z.eqb cat 5)%bool
    then {| e0 := cat; e1 := 0; e2 := 0 |} else ench_none
  else e.

Definition on_wire (r : reply) : reply :=
  {| r_code := r_code r; r_ench := fill_ench (r_code r) (r_ench r); r_msg := r_msg r |}.

(* queue.go toSMTPErr, for a non-nil error (after the fix: the enhanced code stored by
   exterrors.SMTPError is recognised) *)
Definition to_smtp_err0 (e : err) : reply :=
  let t := is_temp_or_unspec e in
  let c0 := if t then 451 else 554 in
  let en0 := if t then {| e0 := 4; e1 := 0; e2 := 0 |} else {| e0 := 5; e1 := 0; e2 := 0 |} in
  let f := fields e in
  let c1 := match flookup KCode f with Some (FInt z) => z | _ => c0 end in
  let en1 := match flookup KEnch f with Some (FEnchExt x) => x | _ => en0 end in
  let m1 := match flookup KMsg f with Some (FStr x) => x | _ => generic_msg end in
  match e with
  | EGoSmtp c x m => {| r_code := c; r_ench := x; r_msg := m |}
  | _ => {| r_code := c1; r_ench := en1; r_msg := m1 |}
  end.

(* ... and an enhanced code that is not set becomes the generic one of the reply class (so that
   a failure report can always carry a status) *)
Definition to_smtp_err (e : err) : reply :=
  let r := to_smtp_err0 e in
  {| r_code := r_code r;
     r_ench := if ench_eqb (r_ench r) ench_notset then {| e0 := r_code r / 100; e1 := 0; e2 := 0 |} else r_ench r;
     r_msg := r_msg r |}.

(* exterrors.SMTPCode / SMTPEnchCode *)
Definition smtp_code (e : err) (t p : Z) : Z := if is_temp e then t else p.
Definition smtp_ench_code (e : err) (c : ench) : ench :=
  {| e0 := if is_temp e then 4 else 5; e1 := e1 c; e2 := e2 c |}.

(* ---- the decidable statement of the property on a reply ---- *)
Definition cls (code : Z) : Z := code / 100.
Definition coherent (r : reply) : bool :=
  ((Z.eqb (cls (r_code r)) 4 || Z.eqb (cls (r_code r)) 5)
   && Z.eqb (e0 (r_ench r)) (cls (r_code r)))%bool.

Definition ascii_only (m : str) : bool := forallb (fun c => N.ltb c 128%N) m.

(* ---- well-annotated errors: what maddy's own construction sites build ---- *)
Definition ench_ok (code : Z) (e : ench) : bool :=
  ((Z.eqb (cls code) 4 || Z.eqb (cls code) 5)
   && (ench_eqb e ench_notset || Z.eqb (e0 e) (cls code)))%bool.

Definition no_annot_keys (kv : list (fkey * fval)) : bool :=
  forallb (fun p => negb (is_annot_key (fst p))) kv.

(* outermost SMTP annotation visible through the chain *)
Fixpoint annot (e : err) : option Z :=
  match e with
  | ESmtp code _ _ _ _ => Some code
  | EWrapW i | ETemp _ i | EFields _ i => annot i
  | _ => None
  end.

Fixpoint wa (e : err) : bool :=
  match e with
  | EPlain | ENet _ | EDeadline => true
  | EWrapW i => wa i
  | ESmtp code en _ _ i =>
      ench_ok code en && match i with Some i' => wa i' | None => true end
  | EGoSmtp code en _ => ench_ok code en
  | ETemp b i =>
      wa i && match annot i with Some c => Bool.eqb b (Z.eqb (cls c) 4) | None => true end
  | EFields kv i => no_annot_keys kv && wa i
  end.

(* *smtp.SMTPError is only honoured when it is the error itself *)
Fixpoint no_nested_gosmtp (e : err) : bool :=
  match e with
  | EGoSmtp _ _ _ => false
  | EWrapW i | ETemp _ i | EFields _ i => no_nested_gosmtp i
  | ESmtp _ _ _ _ (Some i) => no_nested_gosmtp i
  | _ => true
  end.
Definition gosmtp_top_only (e : err) : bool :=
  match e with EGoSmtp _ _ _ => true | _ => no_nested_gosmtp e end.

(* ---- SMTP error literals in the source (filled by the translator, gen/SmtpLiterals.v) ---- *)
Inductive lit :=
| LConst (code : Z) (e : ench)                 (* Code: 550, EnhancedCode: {5,1,1} *)
| LHelper (t p : Z) (e : ench)                 (* SMTPCode(err,t,p) with SMTPEnchCode(err,e) *)
| LCodeOnly (code : Z)                         (* constant code, enhanced code not given *)
| LMixed                                       (* helper on one side, constant on the other *)
| LDynamic.                                    (* copied from elsewhere: not a literal claim *)

Definition lit_coherent (l : lit) : bool :=
  match l with
  | LConst c e => (Z.eqb (e0 e) (cls c) && (Z.eqb (cls c) 4 || Z.eqb (cls c) 5 || Z.eqb (cls c) 2))%bool
  | LHelper t p _ => (Z.eqb (cls t) 4 && Z.eqb (cls p) 5)%bool
  | LCodeOnly c => (Z.eqb (cls c) 4 || Z.eqb (cls c) 5 || Z.eqb (cls c) 2)%bool
  | LMixed => false
  | LDynamic => true
  end.

(* ---- the `reject [code [enhanced [msg]]]` directive: two parsers ---- *)
Definition class45 (z : Z) : bool := (Z.eqb z 4 || Z.eqb z 5)%bool.

(* internal/msgpipeline/config.go parseRejectDirective; None = configuration refused *)
Definition parse_reject_pipeline (code : option Z) (en : option ench) : option (Z * ench) :=
  match en with
  | Some x => if class45 (e0 x) then
                match code with
                | Some c => if class45 (cls c) then Some (c, x) else None
                | None => None           (* an enhanced code is never given without a code *)
                end
              else None
  | None =>
      let d := {| e0 := 5; e1 := 7; e2 := 0 |} in
      match code with
      | Some c => if class45 (cls c) then Some (c, d) else None
      | None => Some (554, d)
      end
  end.

(* framework/config/module/check_action.go ParseRejectDirective *)
Definition parse_reject_action (code : option Z) (en : option ench) : option (Z * ench) :=
  match en with
  | Some x => if class45 (e0 x) then
                match code with
                | Some c => if class45 (cls c) then Some (c, x) else None
                | None => None
                end
              else None
  | None =>
      match code with
      | Some c => if class45 (cls c) then Some (c, {| e0 := cls c; e1 := 7; e2 := 0 |}) else None
      | None => Some (554, {| e0 := 5; e1 := 7; e2 := 0 |})
      end
  end.
