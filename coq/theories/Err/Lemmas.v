(* Proofs about Err/Model.v (C16). *)
From Maddy Require Import Lib.Base Err.Model.
From Coq Require Import String Ascii.
Local Open Scope Z_scope.

(* induction principle that reaches the optional inner error of ESmtp *)
Section ErrInd.
  Variable P : err -> Prop.
  Hypothesis HPlain : P EPlain.
  Hypothesis HWrap : forall i, P i -> P (EWrapW i).
  Hypothesis HSmtpN : forall c e m misc, P (ESmtp c e m misc None).
  Hypothesis HSmtpS : forall c e m misc i, P i -> P (ESmtp c e m misc (Some i)).
  Hypothesis HGo : forall c e m, P (EGoSmtp c e m).
  Hypothesis HTemp : forall b i, P i -> P (ETemp b i).
  Hypothesis HFields : forall kv i, P i -> P (EFields kv i).
  Hypothesis HNet : forall t, P (ENet t).
  Hypothesis HDeadline : P EDeadline.
  Fixpoint err_ind' (e : err) : P e :=
    match e with
    | EPlain => HPlain
    | EWrapW i => HWrap i (err_ind' i)
    | ESmtp c en m misc None => HSmtpN c en m misc
    | ESmtp c en m misc (Some i) => HSmtpS c en m misc i (err_ind' i)
    | EGoSmtp c en m => HGo c en m
    | ETemp b i => HTemp b i (err_ind' i)
    | EFields kv i => HFields kv i (err_ind' i)
    | ENet t => HNet t
    | EDeadline => HDeadline
    end.
End ErrInd.

(* outermost annotation with all three components *)
Fixpoint annot3 (e : err) : option (Z * ench * str) :=
  match e with
  | ESmtp code en msg _ _ => Some (code, en, msg)
  | EWrapW i | ETemp _ i | EFields _ i => annot3 i
  | _ => None
  end.

Lemma annot_annot3 e : annot e = option_map (fun t => fst (fst t)) (annot3 e).
Proof. induction e using err_ind'; simpl; auto. Qed.

Lemma flookup_skip k kv l :
  is_annot_key k = true -> no_annot_keys kv = true -> flookup k (kv ++ l) = flookup k l.
Proof.
  intros Hk. induction kv as [|[k' v] kv IH]; simpl; intros H; [reflexivity|].
  apply andb_true_iff in H as [Hk' H]. simpl in Hk'.
  destruct (fkey_eqb k k') eqn:E.
  - destruct k, k'; simpl in *; try discriminate.
  - apply IH, H.
Qed.

Lemma fields_annot e :
  wa e = true ->
  flookup KCode (fields e) = option_map (fun t => FInt (fst (fst t))) (annot3 e) /\
  flookup KEnch (fields e) = option_map (fun t => FEnchExt (snd (fst t))) (annot3 e) /\
  flookup KMsg (fields e) = option_map (fun t => FStr (snd t)) (annot3 e).
Proof.
  induction e using err_ind'; simpl; intros Hwa; auto.
  - apply andb_true_iff in Hwa as [Hwa Hb]. auto.
  - apply andb_true_iff in Hwa as [Hk Hwa].
    rewrite !flookup_skip by (auto). auto.
Qed.

Lemma wa_annot_temp e c :
  wa e = true -> annot e = Some c -> first_temporary e = Some (Z.eqb (cls c) 4).
Proof.
  induction e using err_ind'; simpl; intros Hwa Ha; try discriminate; auto.
  - inversion Ha; reflexivity.
  - inversion Ha; reflexivity.
  - apply andb_true_iff in Hwa as [Hwa Hb]. rewrite Ha in Hb.
    apply Bool.eqb_prop in Hb. now subst.
  - apply andb_true_iff in Hwa as [_ Hwa]. auto.
Qed.

Lemma wa_annot3_ok e c en m :
  wa e = true -> annot3 e = Some (c, en, m) -> ench_ok c en = true.
Proof.
  induction e using err_ind'; simpl; intros Hwa Ha; try discriminate; auto.
  - inversion Ha; subst. now apply andb_true_iff in Hwa as [? _].
  - inversion Ha; subst. now apply andb_true_iff in Hwa as [? _].
  - apply andb_true_iff in Hwa as [? _]; auto.
  - apply andb_true_iff in Hwa as [_ ?]; auto.
Qed.

Lemma ench_eqb_eq a b : ench_eqb a b = true -> a = b.
Proof.
  destruct a, b; unfold ench_eqb; simpl. rewrite !andb_true_iff, !Z.eqb_eq.
  intros [[-> ->] ->]; reflexivity.
Qed.

Lemma ench_ok_coherent c en m :
  ench_ok c en = true -> coherent (on_wire {| r_code := c; r_ench := en; r_msg := m |}) = true.
Proof.
  unfold ench_ok, coherent, on_wire, fill_ench, cls; simpl.
  intros H. apply andb_true_iff in H as [Hc He]. rewrite Hc. simpl.
  destruct (ench_eqb en ench_notset) eqn:E.
  - apply orb_true_iff in Hc as [Hc|Hc]; rewrite Hc; simpl; rewrite ?orb_true_r; simpl;
      apply Z.eqb_eq in Hc; rewrite Hc; reflexivity.
  - simpl in He. exact He.
Qed.

(* shape of both conversions: a triple taken from the error itself (plain go-smtp error),
   from its outermost annotation, or the defaults *)
Definition annotated_reply (e : err) (dflt : Z) (den : ench) : Z * ench * str :=
  match annot3 e with
  | Some t => t
  | None => (dflt, den, generic_msg)
  end.

Definition reply_triple (e : err) (d : Z) (den : ench) : Z * ench * str :=
  match e with
  | EGoSmtp c x m => (c, x, m)
  | _ => annotated_reply e d den
  end.

Definition mk_reply (t : Z * ench * str) (f : str -> str) : reply :=
  let '(c, en, m) := t in {| r_code := c; r_ench := en; r_msg := f m |}.

Lemma wrap_err_shape msgid mg e :
  wa e = true -> has_deadline e = false ->
  wrap_err msgid mg e =
  mk_reply (reply_triple e (if is_temp e then 451 else 554) ench_notset)
           (fun m => if mg then mangle_msg (with_msgid msgid m) else with_msgid msgid m).
Proof.
  intros Hwa Hd. unfold wrap_err. rewrite Hd.
  destruct (fields_annot e Hwa) as (H1 & H2 & H3). rewrite H1, H2, H3.
  unfold reply_triple, annotated_reply, mk_reply.
  destruct e; try reflexivity; simpl in *;
    match goal with
    | |- context [annot3 ?E] => destruct (annot3 E) as [[[? ?] ?]|]; reflexivity
    end.
Qed.

Definition q_default_ench (t : bool) : ench :=
  if t then {| e0 := 4; e1 := 0; e2 := 0 |} else {| e0 := 5; e1 := 0; e2 := 0 |}.

Lemma to_smtp_err_shape e :
  wa e = true ->
  to_smtp_err0 e =
  mk_reply (reply_triple e (if is_temp_or_unspec e then 451 else 554)
                         (q_default_ench (is_temp_or_unspec e))) (fun m => m).
Proof.
  intros Hwa. unfold to_smtp_err0.
  destruct (fields_annot e Hwa) as (H1 & H2 & H3). rewrite H1, H2, H3.
  unfold reply_triple, annotated_reply, mk_reply, q_default_ench.
  destruct e; try reflexivity; simpl in *;
    match goal with
    | |- context [annot3 ?E] => destruct (annot3 E) as [[[? ?] ?]|]; reflexivity
    end.
Qed.

Lemma first_temp_of_annot3 e c en m :
  wa e = true -> annot3 e = Some (c, en, m) -> first_temporary e = Some (Z.eqb (cls c) 4).
Proof.
  intros Hwa A. apply wa_annot_temp; auto. rewrite annot_annot3, A. reflexivity.
Qed.

(* the only two ways a reply triple arises *)
Lemma reply_triple_cases e d den :
  wa e = true ->
  (exists c en m, reply_triple e d den = (c, en, m) /\ ench_ok c en = true /\
                  first_temporary e = Some (Z.eqb (cls c) 4) /\
                  (annot3 e = Some (c, en, m) \/ e = EGoSmtp c en m)) \/
  (reply_triple e d den = (d, den, generic_msg) /\ annot3 e = None /\
   forall c x m, e <> EGoSmtp c x m).
Proof.
  intros Hwa.
  assert (G : (forall c x m, e <> EGoSmtp c x m) ->
              reply_triple e d den = annotated_reply e d den).
  { intros Hn. destruct e; try reflexivity. exfalso; eapply Hn; reflexivity. }
  destruct e as [|i|c0 en0 m0 misc0 oi|c0 en0 m0|b i|kv i|t|].
  4: { left. exists c0, en0, m0. simpl. auto 6. }
  all: rewrite G by (intros; discriminate); unfold annotated_reply.
  all: match goal with
       | |- context [annot3 ?E] => destruct (annot3 E) as [[[c en] m]|] eqn:A
       end.
  all: try (left; exists c, en, m; split; [reflexivity|]; split;
            [eapply wa_annot3_ok; eauto | split; [eapply first_temp_of_annot3; eauto | left; reflexivity]]).
  all: right; split; [reflexivity|]; split; [reflexivity|]; intros; discriminate.
Qed.

(* ---------- C16, endpoint ---------- *)

Lemma default_coherent (t : bool) m :
  coherent (on_wire {| r_code := if t then 451 else 554; r_ench := ench_notset; r_msg := m |}) = true.
Proof. destruct t; reflexivity. Qed.

Lemma q_default_coherent (t : bool) m :
  coherent (on_wire {| r_code := if t then 451 else 554; r_ench := q_default_ench t; r_msg := m |}) = true.
Proof. destruct t; reflexivity. Qed.

Lemma wrap_err_coherent msgid mg e :
  wa e = true -> coherent (on_wire (wrap_err msgid mg e)) = true.
Proof.
  intros Hwa. destruct (has_deadline e) eqn:Hd.
  { unfold wrap_err. rewrite Hd. reflexivity. }
  rewrite (wrap_err_shape msgid mg e Hwa Hd).
  destruct (reply_triple_cases e (if is_temp e then 451 else 554) ench_notset Hwa)
    as [(c & en & m & -> & Hok & _ & _) | (-> & _ & _)]; unfold mk_reply.
  - apply ench_ok_coherent, Hok.
  - apply default_coherent.
Qed.

Lemma wrap_err_class_temp msgid mg e :
  wa e = true -> has_deadline e = false ->
  Z.eqb (cls (r_code (wrap_err msgid mg e))) 4 = is_temp e.
Proof.
  intros Hwa Hd. rewrite (wrap_err_shape msgid mg e Hwa Hd).
  destruct (reply_triple_cases e (if is_temp e then 451 else 554) ench_notset Hwa)
    as [(c & en & m & -> & _ & Ht & _) | (-> & _ & _)]; unfold mk_reply; simpl.
  - unfold is_temp. rewrite Ht. reflexivity.
  - destruct (is_temp e); reflexivity.
Qed.

Lemma wrap_err_deadline msgid mg e :
  has_deadline e = true ->
  wrap_err msgid mg e =
    {| r_code := 451; r_ench := {| e0 := 4; e1 := 4; e2 := 5 |}; r_msg := highload_msg |}.
Proof. intros H. unfold wrap_err. now rewrite H. Qed.

Lemma mangle_ascii m : ascii_only (mangle_msg m) = true.
Proof.
  unfold ascii_only, mangle_msg. rewrite forallb_forall. intros c Hin.
  apply in_map_iff in Hin as (x & <- & _).
  destruct (N.ltb 127 x) eqn:E; apply N.ltb_lt; [lia|]. apply N.ltb_ge in E. lia.
Qed.

Lemma wrap_err_ascii msgid e : ascii_only (r_msg (wrap_err msgid true e)) = true.
Proof.
  unfold wrap_err. destruct (has_deadline e); [reflexivity|].
  destruct e; simpl; try apply mangle_ascii.
  all: repeat match goal with
              | |- context [match ?X with _ => _ end] => destruct X; simpl
              end; apply mangle_ascii.
Qed.

Lemma wrap_err_generic mg e :
  wa e = true -> has_deadline e = false -> annot e = None ->
  (forall c x m, e <> EGoSmtp c x m) ->
  r_msg (wrap_err [] mg e) = (if mg then mangle_msg generic_msg else generic_msg).
Proof.
  intros Hwa Hd Ha Hn. rewrite (wrap_err_shape [] mg e Hwa Hd).
  destruct (reply_triple_cases e (if is_temp e then 451 else 554) ench_notset Hwa)
    as [(c & en & m & Hr & _ & _ & [A | E]) | (-> & _ & _)]; unfold mk_reply; simpl.
  - exfalso. rewrite annot_annot3, A in Ha. discriminate.
  - exfalso. eapply Hn; eauto.
  - reflexivity.
Qed.

(* ---------- C16, queue ---------- *)

Lemma ench_ok_filled c en m :
  ench_ok c en = true ->
  coherent {| r_code := c;
              r_ench := if ench_eqb en ench_notset then {| e0 := c / 100; e1 := 0; e2 := 0 |} else en;
              r_msg := m |} = true.
Proof.
  unfold ench_ok, coherent, cls; simpl. intros H. apply andb_true_iff in H as [Hc He]. rewrite Hc. simpl.
  destruct (ench_eqb en ench_notset); simpl.
  - apply Z.eqb_refl.
  - simpl in He. exact He.
Qed.

(* what the queue stores (and copies into failure reports) is coherent as it stands *)
Lemma to_smtp_err_coherent e :
  wa e = true -> coherent (to_smtp_err e) = true.
Proof.
  intros Hwa. unfold to_smtp_err. rewrite (to_smtp_err_shape e Hwa).
  destruct (reply_triple_cases e (if is_temp_or_unspec e then 451 else 554)
              (q_default_ench (is_temp_or_unspec e)) Hwa)
    as [(c & en & m & -> & Hok & _ & _) | (-> & _ & _)]; unfold mk_reply; cbn [r_code r_ench r_msg].
  - apply ench_ok_filled, Hok.
  - destruct (is_temp_or_unspec e); reflexivity.
Qed.

Lemma to_smtp_err_has_status e :
  wa e = true -> Z.eqb (e0 (r_ench (to_smtp_err e))) 0 = false.
Proof.
  intros Hwa. pose proof (to_smtp_err_coherent e Hwa) as H. unfold coherent in H.
  apply andb_true_iff in H as [Hc He]. apply Z.eqb_eq in He. rewrite He.
  apply orb_true_iff in Hc as [Hc|Hc]; apply Z.eqb_eq in Hc; rewrite Hc; reflexivity.
Qed.

Lemma to_smtp_err_class_retry e :
  wa e = true -> Z.eqb (cls (r_code (to_smtp_err e))) 4 = is_temp_or_unspec e.
Proof.
  intros Hwa. unfold to_smtp_err. cbn [r_code]. rewrite (to_smtp_err_shape e Hwa).
  destruct (reply_triple_cases e (if is_temp_or_unspec e then 451 else 554)
              (q_default_ench (is_temp_or_unspec e)) Hwa)
    as [(c & en & m & -> & _ & Ht & _) | (-> & _ & _)]; unfold mk_reply; simpl.
  - unfold is_temp_or_unspec. rewrite Ht. reflexivity.
  - destruct (is_temp_or_unspec e); reflexivity.
Qed.

(* ---------- helper-computed codes ---------- *)

Lemma helper_coherent e t p en :
  lit_coherent (LHelper t p en) = true ->
  coherent {| r_code := smtp_code e t p; r_ench := smtp_ench_code e en; r_msg := [] |} = true.
Proof.
  unfold lit_coherent, coherent, smtp_code, smtp_ench_code, cls; simpl.
  intros H. apply andb_true_iff in H as [Ht Hp].
  destruct (is_temp e); simpl.
  - rewrite Ht. simpl. apply Z.eqb_eq in Ht. rewrite Ht. reflexivity.
  - rewrite Hp. rewrite orb_true_r. simpl. apply Z.eqb_eq in Hp. rewrite Hp. reflexivity.
Qed.

Lemma helper_class_temp e t p :
  Z.eqb (cls t) 4 = true -> Z.eqb (cls p) 5 = true ->
  Z.eqb (cls (smtp_code e t p)) 4 = is_temp e.
Proof.
  unfold smtp_code. intros Ht Hp. destruct (is_temp e); auto.
  apply Z.eqb_eq in Hp. rewrite Hp. reflexivity.
Qed.

(* a coherent constant literal is a well-annotated node *)
Lemma lit_const_ench_ok c en :
  lit_coherent (LConst c en) = true -> Z.eqb (cls c) 2 = false -> ench_ok c en = true.
Proof.
  unfold lit_coherent, ench_ok. intros H H2. apply andb_true_iff in H as [He Hc].
  rewrite H2, orb_false_r in Hc. rewrite Hc. simpl. rewrite He. apply orb_true_r.
Qed.

(* ---------- reject directive ---------- *)
Lemma reject_action_default_coherent code c e :
  parse_reject_action code None = Some (c, e) ->
  coherent {| r_code := c; r_ench := e; r_msg := [] |} = true.
Proof.
  unfold parse_reject_action. destruct code as [z|].
  - destruct (class45 (cls z)) eqn:H; [|discriminate]. intros E; inversion E; subst.
    unfold coherent, class45 in *; simpl. rewrite H, Z.eqb_refl. reflexivity.
  - intros E; inversion E; subst. reflexivity.
Qed.

Lemma reject_pipeline_default_partial code c e :
  parse_reject_pipeline code None = Some (c, e) -> Z.eqb (cls c) 5 = true ->
  coherent {| r_code := c; r_ench := e; r_msg := [] |} = true.
Proof.
  unfold parse_reject_pipeline. destruct code as [z|].
  - destruct (class45 (cls z)); [|discriminate]. intros E H; inversion E; subst.
    unfold coherent; simpl. rewrite H, orb_true_r. simpl. apply Z.eqb_eq in H. rewrite H. reflexivity.
  - intros E _; inversion E; subst. reflexivity.
Qed.

Lemma reject_pipeline_default_refuted :
  exists code c e, parse_reject_pipeline (Some code) None = Some (c, e) /\
                   coherent {| r_code := c; r_ench := e; r_msg := [] |} = false.
Proof. exists 451, 451, {| e0 := 5; e1 := 7; e2 := 0 |}. vm_compute. auto. Qed.
