(* C16, the remote target's own "no usable MX" failure: every MX candidate of the domain failed,
   some temporarily (nothing listening) and some permanently (no address record); the error is
   built from the failure of the candidate tried last.  What the queue stores for it and whether
   it counts as temporary. *)
From Maddy Require Export Lib.Base Err.Model.
Local Open Scope Z_scope.

(* per candidate, in the order tried: true = the failure was temporary *)
(* [m_lookup = Some t]: the MX lookup itself failed, temporarily (t) or not - a time-out or
   SERVFAIL, a name that does not exist, an answer the resolver cannot make sense of *)
Record case := { m_lookup : option bool; m_fails : list bool; m_stored : option (Z * ench); m_temp : bool }.

Definition mx_lookup_error (temporary : bool) : Z * ench :=
  if temporary then (451, {| e0 := 4; e1 := 4; e2 := 4 |}) else (554, {| e0 := 5; e1 := 4; e2 := 4 |}).
Definition expected (c : case) : (Z * ench) * bool :=
  match m_lookup c with
  | Some t => (mx_lookup_error t, t)
  | None => (if last (m_fails c) false then (451, {| e0 := 4; e1 := 4; e2 := 0 |}) else (550, {| e0 := 5; e1 := 4; e2 := 0 |}),
             last (m_fails c) false)
  end.

Definition no_usable_mx (fails : list bool) : Z * ench :=
  if last fails false then (451, {| e0 := 4; e1 := 4; e2 := 0 |}) else (550, {| e0 := 5; e1 := 4; e2 := 0 |}).

Definition agrees (c : case) : bool :=
  match m_stored c with
  | None => false
  | Some (code, e) =>
      (Z.eqb code (fst (fst (expected c))) && ench_eqb e (snd (fst (expected c)))
       && Bool.eqb (m_temp c) (snd (expected c)))%bool
  end.
Definition mismatches (cs : list case) : list N := find_idx (fun c => negb (agrees c)) cs.

(* the property: the classes of the basic code, of the enhanced code and the retry decision agree *)
Definition monitor (c : case) : list N :=
  match m_stored c with
  | None => [13%N]
  | Some (code, e) =>
      (if coherent {| r_code := code; r_ench := e; r_msg := [] |} then [] else [2%N]) ++
      (if Bool.eqb (m_temp c) (Z.eqb (cls code) 4) then [] else [12%N])
  end.
Definition monitor_failures (cs : list case) : list (N * list N) :=
  let fix go (i : N) (l : list case) :=
    match l with
    | [] => []
    | c :: t => match monitor c with [] => go (N.succ i) t | cl => (i, cl) :: go (N.succ i) t end
    end in go 0%N cs.
Definition tag (c : case) : N :=
  (N.of_nat (length (m_fails c)) + (match m_lookup c with Some true => 32 | Some false => 64 | None => 0 end)
   + (if existsb (fun b => b) (m_fails c) then 8 else 0)
   + (if existsb negb (m_fails c) then 16 else 0))%N.
Definition tags (cs : list case) : list N := map tag cs.

(* the model's replies are coherent and agree with the retry decision, whatever the candidates did *)
Lemma no_usable_mx_coherent fails :
  let r := no_usable_mx fails in
  coherent {| r_code := fst r; r_ench := snd r; r_msg := [] |} = true /\
  Z.eqb (cls (fst r)) 4 = last fails false.
Proof. unfold no_usable_mx. destruct (last fails false); split; reflexivity. Qed.

Lemma mx_lookup_error_coherent t :
  let r := mx_lookup_error t in
  coherent {| r_code := fst r; r_ench := snd r; r_msg := [] |} = true /\ Z.eqb (cls (fst r)) 4 = t.
Proof. destruct t; split; reflexivity. Qed.
