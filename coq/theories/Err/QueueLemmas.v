(* C16, queue stream: histories on which the queue behaves as the model says satisfy the
   property's class/decision agreement. *)
From Maddy Require Import Lib.Base Err.Model Err.Lemmas Err.QueueCorr.
Local Open Scope Z_scope.

Lemma stored_eqb_codes m o :
  stored_eqb m o = true -> exists r full, o = Some (r, full) /\ r_code r = r_code m /\ r_ench r = r_ench m.
Proof.
  unfold stored_eqb. destruct o as [[r full]|]; [|discriminate].
  rewrite !andb_true_iff. intros [[H1 H2] _]. exists r, full. split; [reflexivity|].
  apply Z.eqb_eq in H1. split; [symmetry; exact H1|].
  unfold ench_eqb in H2. rewrite !andb_true_iff in H2. destruct H2 as [[A B] C].
  apply Z.eqb_eq in A, B, C. destruct (r_ench m), (r_ench r); cbn in *; congruence.
Qed.

Lemma model_history_satisfies mt : forall l i,
  forallb (fun a : attempt => wa (fst (fst a))) l = true ->
  attempts_agree mt i l = true -> mon_attempts mt i l = [].
Proof.
  induction l as [|[[e st] retried] l IH]; intros i Hw Ha; [reflexivity|].
  cbn [forallb fst] in Hw. apply andb_true_iff in Hw. destruct Hw as [We Wl].
  cbn [attempts_agree] in Ha. rewrite !andb_true_iff in Ha. destruct Ha as [[A1 A2] A3].
  cbn [mon_attempts]. rewrite We, (IH _ Wl A3), app_nil_r.
  destruct (stored_eqb_codes _ _ A1) as [r [full [-> [Hc He]]]].
  pose proof (to_smtp_err_coherent e We) as Hco.
  pose proof (to_smtp_err_class_retry e We) as Hcl.
  assert (Hcr : coherent r = true) by (unfold coherent in *; rewrite Hc, He; exact Hco).
  rewrite Hcr. cbn [app].
  rewrite Hc. apply Bool.eqb_prop in A2.
  unfold coherent in Hco. apply andb_true_iff in Hco. destruct Hco as [H45 _].
  destruct retried.
  - symmetry in A2. apply andb_true_iff in A2. destruct A2 as [T _]. rewrite Hcl, T. reflexivity.
  - destruct (i + 1 <? mt)%N; [|reflexivity].
    rewrite andb_true_r in A2. rewrite Hcl, <- A2 in H45. cbn [orb] in H45. rewrite H45. reflexivity.
Qed.
