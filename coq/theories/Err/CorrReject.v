(* C16, reject directive: correspondence and monitor. *)
From Maddy Require Export Lib.Base Err.Model.
Local Open Scope Z_scope.

Record case := { c_pipeline : bool; c_code : option Z; c_ench : option ench;
                 c_res : option (Z * ench) }.

Definition res_eqb (a b : option (Z * ench)) : bool :=
  match a, b with
  | None, None => true
  | Some (c, e), Some (c', e') => (Z.eqb c c' && ench_eqb e e')%bool
  | _, _ => false
  end.

Definition model_res (c : case) :=
  if c_pipeline c then parse_reject_pipeline (c_code c) (c_ench c)
  else parse_reject_action (c_code c) (c_ench c).
Definition agrees (c : case) : bool := res_eqb (model_res c) (c_res c).
Definition mismatches (cs : list case) : list N := find_idx (fun c => negb (agrees c)) cs.

(* clause 11: class left to maddy and incoherent; 101: the characterised known defect *)
Definition monitor (c : case) : list N :=
  match c_ench c, c_res c with
  | None, Some (code, e) =>
      if coherent {| r_code := code; r_ench := e; r_msg := [] |} then []
      else if (c_pipeline c && Z.eqb (cls code) 4 && ench_eqb e {| e0 := 5; e1 := 7; e2 := 0 |})%bool
           then [101%N] else [11%N]
  | _, _ => []
  end.
Definition monitor_failures (cs : list case) : list (N * list N) :=
  let fix go (i : N) (l : list case) :=
    match l with
    | [] => []
    | c :: t => match monitor c with [] => go (N.succ i) t | cl => (i, cl) :: go (N.succ i) t end
    end in go 0%N cs.
Definition tag (c : case) : N :=
  ((if c_pipeline c then 1 else 2) + (match c_code c with Some _ => 4 | None => 0 end)
   + (match c_ench c with Some _ => 8 | None => 0 end) + (match c_res c with Some _ => 16 | None => 0 end))%N.
Definition tags (cs : list case) : list N := map tag cs.
