(* Shared basics: strings are lists of code points / bytes (N). Definitions and their
   characterising lemmas; stdlib only. *)
From Coq Require Export List ZArith NArith Bool Lia.
Export ListNotations.

Definition str := list N.

Fixpoint list_eqb {A} (eqb : A -> A -> bool) (a b : list A) : bool :=
  match a, b with
  | [], [] => true
  | x :: a', y :: b' => eqb x y && list_eqb eqb a' b'
  | _, _ => false
  end.

Definition str_eqb : str -> str -> bool := list_eqb N.eqb.

Lemma list_eqb_spec {A} (eqb : A -> A -> bool)
  (H : forall x y, eqb x y = true <-> x = y) :
  forall a b, list_eqb eqb a b = true <-> a = b.
Proof.
  induction a as [|x a IH]; destruct b as [|y b]; simpl; try (split; congruence).
  rewrite andb_true_iff, H, IH. split; [intros [-> ->]; reflexivity | intros E; inversion E; auto].
Qed.

Lemma str_eqb_eq a b : str_eqb a b = true <-> a = b.
Proof. apply list_eqb_spec. intros; apply N.eqb_eq. Qed.

Lemma str_eqb_refl a : str_eqb a a = true.
Proof. apply str_eqb_eq; reflexivity. Qed.

Definition option_eqb {A} (eqb : A -> A -> bool) (a b : option A) : bool :=
  match a, b with
  | None, None => true
  | Some x, Some y => eqb x y
  | _, _ => false
  end.

Fixpoint count_occ_b {A} (eqb : A -> A -> bool) (l : list A) (x : A) : nat :=
  match l with
  | [] => 0
  | y :: t => (if eqb y x then 1 else 0) + count_occ_b eqb t x
  end.

Definition mem_b {A} (eqb : A -> A -> bool) (x : A) (l : list A) : bool :=
  existsb (eqb x) l.

(* association lists used as small maps; first binding wins *)
Fixpoint alookup {A B} (eqb : A -> A -> bool) (k : A) (l : list (A * B)) : option B :=
  match l with
  | [] => None
  | (k', v) :: t => if eqb k k' then Some v else alookup eqb k t
  end.

(* indexes (from 0) of list elements satisfying p *)
Fixpoint find_idx_from {A} (p : A -> bool) (i : N) (l : list A) : list N :=
  match l with
  | [] => []
  | x :: t => (if p x then [i] else []) ++ find_idx_from p (N.succ i) t
  end.
Definition find_idx {A} (p : A -> bool) (l : list A) : list N := find_idx_from p 0%N l.
