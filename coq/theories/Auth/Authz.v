(* C15: check.authorize_sender.  authzSender, AuthorizeEmailUse, CheckSender and CheckBody on
   a header given as the list of its fields top to bottom (lower-case key, value as
   textproto.Header.Get returns it).  Normalizers, tables, address.Split and the net/mail
   address parsers are oracles.  Definitions only. *)
From Maddy Require Export Lib.Base.
Local Open Scope N_scope.

Record action := { a_reject : bool; a_quar : bool }.
Record result := { r_reason : N;          (* 0: none; otherwise code * 1000 + enhanced code digits *)
                   r_reject : bool; r_quar : bool }.
Definition pass : result := {| r_reason := 0; r_reject := false; r_quar := false |}.
Definition apply_action (a : action) (reason : N) : result :=
  {| r_reason := reason; r_reject := a_reject a; r_quar := a_quar a |}.

Inductive prep := PErr | PMiss | PHit (l : list str).

Record config := { check_header : bool; unauth_action : action; no_match_action : action; err_action : action }.

Definition STAR : str := [42].
Definition K_FROM : str := [102; 114; 111; 109].
Definition K_SENDER : str := [115; 101; 110; 100; 101; 114].

Section Authz.
  Variable cfg : config.
  Variable from_norm auth_norm : str -> option str.
  Variable prepare : str -> prep.                       (* prepare_email table *)
  Variable user_to_email : str -> option (list str).    (* user_to_email table; None = lookup error *)
  Variable split_domain : str -> option str.            (* address.Split: the domain, None = error *)
  Variable parse_list : str -> option (list str).       (* mail.ParseAddressList: the addresses *)
  Variable parse_addr : str -> option str.              (* mail.ParseAddress *)

  Definition ent_matches (valid : list str) (a d : str) : bool :=
    existsb (fun ent => str_eqb ent d || str_eqb ent STAR || str_eqb ent a) valid.

  (* authz.AuthorizeEmailUse after the table lookup *)
  Fixpoint authorize_addrs (valid : list str) (addrs : list str) : option bool :=
    match addrs with
    | [] => Some false
    | a :: r => match split_domain a with
                | None => None
                | Some d => if ent_matches valid a d then Some true else authorize_addrs valid r
                end
    end.

  Definition authz_sender (auth email : str) : result :=
    match auth with
    | [] => apply_action (unauth_action cfg) 530570
    | _ =>
      match from_norm email with
      | None => apply_action (err_action cfg) 553517
      | Some fn =>
        match auth_norm auth with
        | None => apply_action (err_action cfg) 535578
        | Some an =>
          match prepare fn with
          | PErr => apply_action (err_action cfg) 454470
          | p =>
            let prepared := match p with PHit l => l | _ => [fn] end in
            match user_to_email an with
            | None => apply_action (err_action cfg) 454470
            | Some valid =>
              match authorize_addrs valid prepared with
              | None => apply_action (err_action cfg) 454470
              | Some false => apply_action (no_match_action cfg) 553570
              | Some true => pass
              end
            end
          end
        end
      end
    end.

  Definition check_sender (has_conn : bool) (auth mail_from : str) : result :=
    if negb has_conn then pass else authz_sender auth mail_from.

  Definition header := list (str * str).
  Definition values (h : header) (k : str) : list str :=
    flat_map (fun kv => if str_eqb (fst kv) k then [snd kv] else []) h.
  Definition get (h : header) (k : str) : str := match values h k with v :: _ => v | [] => [] end.

  Definition check_body (has_conn : bool) (auth : str) (h : header) : result :=
    if negb (check_header cfg) then pass
    else if negb has_conn then pass
    else if Nat.ltb 1 (length (values h K_FROM)) then apply_action (err_action cfg) 550570
    else if Nat.ltb 1 (length (values h K_SENDER)) then apply_action (err_action cfg) 550570
    else
      match get h K_FROM with
      | [] => apply_action (err_action cfg) 550570
      | fromv =>
        match parse_list fromv with
        | None | Some [] => apply_action (err_action cfg) 550570
        | Some (_ :: _ :: _) => apply_action (err_action cfg) 550570
        | Some [from_email] =>
          match (match get h K_SENDER with
                 | [] => Some []
                 | sv => match parse_addr sv with Some a => Some a | None => None end
                 end) with
          | None => apply_action (err_action cfg) 550570
          | Some sender =>
            let res := authz_sender auth from_email in
            if r_reason res =? 0 then res
            else
              let res2 := match sender with
                          | [] => res
                          | _ => if str_eqb sender from_email then res else authz_sender auth sender
                          end in
              if r_reason res2 =? 0 then res2
              else apply_action (no_match_action cfg) 553570
          end
        end
      end.

  (* ---- reference: what the user is entitled to under the configured mapping ---- *)
  Definition entitled (auth addr : str) : Prop :=
    auth <> [] /\
    exists fn an valid a d ent,
      from_norm addr = Some fn /\ auth_norm auth = Some an /\ user_to_email an = Some valid /\
      In a (match prepare fn with PHit l => l | _ => [fn] end) /\ split_domain a = Some d /\
      In ent valid /\ (ent = d \/ ent = STAR \/ ent = a).
End Authz.
