From Maddy Require Import Lib.Base Auth.Authz Auth.Lemmas.
From Coq Require Import Lia.
Local Open Scope N_scope.

Section Authz.
  Variable cfg : config.
  Variable from_norm auth_norm : str -> option str.
  Variable prepare : str -> prep.
  Variable user_to_email : str -> option (list str).
  Variable split_domain : str -> option str.
  Variable parse_list : str -> option (list str).
  Variable parse_addr : str -> option str.

  Notation authz := (authz_sender cfg from_norm auth_norm prepare user_to_email split_domain).
  Notation ent := (entitled from_norm auth_norm prepare user_to_email split_domain).
  Notation body := (check_body cfg from_norm auth_norm prepare user_to_email split_domain parse_list parse_addr).

  Lemma authorize_addrs_true valid addrs :
    authorize_addrs split_domain valid addrs = Some true ->
    exists a d e, In a addrs /\ split_domain a = Some d /\ In e valid /\ (e = d \/ e = STAR \/ e = a).
  Proof.
    induction addrs as [|a r IH]; cbn; [discriminate|].
    destruct (split_domain a) as [d|] eqn:Es; [|discriminate].
    destruct (ent_matches valid a d) eqn:Em.
    - intros _. unfold ent_matches in Em. apply existsb_exists in Em as (e & Hin & He).
      exists a, d, e. split; [left; reflexivity|]. split; [exact Es|]. split; [exact Hin|].
      apply Bool.orb_true_iff in He as [He|He]; [apply Bool.orb_true_iff in He as [He|He]|];
        apply str_eqb_eq in He; auto.
    - intro H. destruct (IH H) as (a' & d' & e & Hin & Hs & He & Hm).
      exists a', d', e. split; [right; exact Hin|auto].
  Qed.

  (* no reason at all: only when the address is one the user is entitled to *)
  Lemma authz_pass_entitled auth email :
    r_reason (authz auth email) = 0 -> ent auth email.
  Proof.
    unfold authz_sender, entitled. destruct auth as [|c auth]; [cbn; discriminate|].
    destruct (from_norm email) as [fn|] eqn:Ef; [|cbn; discriminate].
    destruct (auth_norm (c :: auth)) as [an|] eqn:Ea; [|cbn; discriminate].
    intro H. split; [discriminate|].
    assert (P : forall prepared,
               prepared = match prepare fn with PHit l => l | _ => [fn] end ->
               r_reason (match user_to_email an with
                         | None => apply_action (err_action cfg) 454470
                         | Some valid => match authorize_addrs split_domain valid prepared with
                                         | None => apply_action (err_action cfg) 454470
                                         | Some false => apply_action (no_match_action cfg) 553570
                                         | Some true => pass end end) = 0 ->
               exists valid a d e, user_to_email an = Some valid /\ In a prepared /\ split_domain a = Some d /\
                                   In e valid /\ (e = d \/ e = STAR \/ e = a)).
    { intros prepared _ Hr. destruct (user_to_email an) as [valid|]; [|cbn in Hr; discriminate].
      destruct (authorize_addrs split_domain valid prepared) as [[|]|] eqn:Eau; try (cbn in Hr; discriminate).
      destruct (authorize_addrs_true _ _ Eau) as (a & d & e & H1 & H2 & H3 & H4).
      exists valid, a, d, e. auto. }
    destruct (prepare fn) as [| |l] eqn:Ep; [cbn in H; discriminate| |];
      (destruct (P _ eq_refl H) as (valid & a & d & e & H1 & H2 & H3 & H4 & H5);
       exists fn, an, valid, a, d, e; rewrite Ep; auto 10).
  Qed.

  Lemma apply_reject_reason a n : a_reject a = true -> r_reject (apply_action a n) = true.
  Proof. intro H; exact H. Qed.

  Definition all_reject : Prop :=
    a_reject (unauth_action cfg) = true /\ a_reject (no_match_action cfg) = true /\ a_reject (err_action cfg) = true.

  Lemma authz_not_rejected_reason auth email :
    all_reject -> r_reject (authz auth email) = false -> r_reason (authz auth email) = 0.
  Proof.
    intros (Hu & Hn & He). unfold authz_sender.
    destruct auth as [|c auth]; [cbn; congruence|].
    destruct (from_norm email); [|cbn; congruence].
    destruct (auth_norm (c :: auth)); [|cbn; congruence].
    destruct (prepare s) as [| |l]; [cbn; congruence| |];
      (destruct (user_to_email s0); [|cbn; congruence];
       destruct (authorize_addrs _ _ _) as [[|]|]; cbn; congruence).
  Qed.

  Lemma sender_accept has_conn auth mf :
    all_reject -> r_reject (check_sender cfg from_norm auth_norm prepare user_to_email split_domain has_conn auth mf) = false ->
    has_conn = true -> ent auth mf.
  Proof.
    intros Hall Hr Hc. subst. unfold check_sender in Hr. cbn in Hr.
    apply authz_pass_entitled. apply authz_not_rejected_reason; assumption.
  Qed.

  Lemma values_single (h : header) k v : values h k = [v] -> forall v', In (k, v') h -> v' = v.
  Proof.
    intros Hv v' Hin. assert (Hi : In v' (values h k)).
    { unfold values. apply in_flat_map. exists (k, v'). split; [exact Hin|]. cbn. rewrite str_eqb_refl. left; reflexivity. }
    rewrite Hv in Hi. destruct Hi as [Hi|[]]. congruence.
  Qed.

  (* the header check, all actions set to reject: an accepted message has exactly one From
     field holding exactly one address, at most one Sender field, and the From address or
     the Sender address is one the user is entitled to *)
  Lemma body_accept auth h :
    all_reject -> check_header cfg = true ->
    r_reject (body true auth h) = false ->
    exists fv fa, values h K_FROM = [fv] /\ parse_list fv = Some [fa] /\
      (ent auth fa \/
       exists sv sa, values h K_SENDER = [sv] /\ parse_addr sv = Some sa /\ ent auth sa).
  Proof.
    intros Hall Hch Hr. assert (Hall' := Hall). destruct Hall' as (Hu & Hn & He).
    unfold check_body in Hr. rewrite Hch in Hr. cbn [negb] in Hr.
    destruct (Nat.ltb 1 (length (values h K_FROM))) eqn:Lf; [cbn in Hr; congruence|].
    destruct (Nat.ltb 1 (length (values h K_SENDER))) eqn:Ls; [cbn in Hr; congruence|].
    unfold get in Hr.
    destruct (values h K_FROM) as [|fv [|fv2 fr]] eqn:Vf; [cbn in Hr; congruence| |cbn in Lf; discriminate].
    destruct fv as [|fc fv]; [cbn in Hr; congruence|].
    destruct (parse_list (fc :: fv)) as [[|fa [|fa2 fl]]|] eqn:Pl; try (cbn in Hr; congruence).
    exists (fc :: fv), fa. split; [reflexivity|]. split; [exact Pl|].
    destruct (values h K_SENDER) as [|sv [|sv2 sr]] eqn:Vs; [| |cbn in Ls; discriminate].
    - (* no Sender field *)
      cbn [r_reason] in Hr.
      destruct (r_reason (authz auth fa) =? 0) eqn:E0.
      + left. apply authz_pass_entitled. apply N.eqb_eq. exact E0.
      + try rewrite E0 in Hr; cbn in Hr; congruence.
    - destruct sv as [|sc sv].
      + destruct (r_reason (authz auth fa) =? 0) eqn:E0.
        * left. apply authz_pass_entitled. apply N.eqb_eq. exact E0.
        * try rewrite E0 in Hr; cbn in Hr; congruence.
      + destruct (parse_addr (sc :: sv)) as [sa|] eqn:Pa; [|cbn in Hr; congruence].
        destruct (r_reason (authz auth fa) =? 0) eqn:E0.
        * left. apply authz_pass_entitled. apply N.eqb_eq. exact E0.
        * destruct sa as [|sac sa]; [try rewrite E0 in Hr; cbn in Hr; congruence|].
          destruct (str_eqb (sac :: sa) fa) eqn:Eq; [try rewrite E0 in Hr; cbn in Hr; congruence|].
          destruct (r_reason (authz auth (sac :: sa)) =? 0) eqn:E1; [|cbn in Hr; congruence].
          right. exists (sc :: sv), (sac :: sa). split; [reflexivity|]. split; [exact Pa|].
          apply authz_pass_entitled. apply N.eqb_eq. exact E1.
  Qed.

  Lemma unauth_refused email :
    a_reject (unauth_action cfg) = true -> r_reject (authz [] email) = true /\ r_reason (authz [] email) = 530570.
  Proof. intro H. cbn. auto. Qed.

  Lemma spelling_invariant auth e1 e2 :
    from_norm e1 = from_norm e2 -> authz auth e1 = authz auth e2.
  Proof. intro H. unfold authz_sender. rewrite H. reflexivity. Qed.
  Lemma spelling_invariant_auth a1 a2 email :
    a1 <> [] -> a2 <> [] -> auth_norm a1 = auth_norm a2 -> authz a1 email = authz a2 email.
  Proof.
    intros H1 H2 H. unfold authz_sender. destruct a1; [contradiction|]. destruct a2; [contradiction|].
    rewrite H. reflexivity.
  Qed.
End Authz.
