(* C15, the normalisation settings: what the directives auth_normalize / from_normalize promise
   of the functions behind their names, as far as the entitlement decision depends on it.
   Strings are lists of code points here.  [low] is the per-character lower-case mapping of the
   Unicode tables (an oracle, recorded per string from Go's unicode.ToLower).

     noop      the string itself
     casefold  "convert to lower case": the string mapped character by character
     precis*   an oracle (golang.org/x/text/secure/precis, address.PRECIS); only its being a
               function of the string is used by the model of the check

   A setting that identifies more strings than its contract says lets a user send as an address
   that merely collapses onto one they are entitled to. *)
From Maddy Require Export Lib.Base.
Local Open Scope N_scope.

Inductive setting := SNoop | SCasefold | SOther.
Record side := { s_in : list N; s_low : list N; s_out : option (list N) }.
Record case := { n_set : setting; n_a : side; n_b : side }.

Definition contract (st : setting) (s : side) : option (option (list N)) :=
  match st with
  | SNoop => Some (Some (s_in s))
  | SCasefold => Some (Some (s_low s))
  | SOther => None
  end.
Definition out_eqb := option_eqb (list_eqb N.eqb).
Definition side_ok (st : setting) (s : side) : bool :=
  match contract st s with Some want => out_eqb want (s_out s) | None => true end.
Definition agrees (c : case) : bool := side_ok (n_set c) (n_a c) && side_ok (n_set c) (n_b c).
Definition mismatches (cs : list case) : list N := find_idx (fun c => negb (agrees c)) cs.

(* the half the entitlement decision rests on: strings the contract keeps apart stay apart *)
Definition same_out (a b : side) : bool :=
  match s_out a, s_out b with Some x, Some y => list_eqb N.eqb x y | _, _ => false end.
Definition monitor (c : case) : list N :=
  match n_set c with
  | SNoop => if same_out (n_a c) (n_b c) && negb (list_eqb N.eqb (s_in (n_a c)) (s_in (n_b c))) then [4] else []
  | SCasefold => if same_out (n_a c) (n_b c) && negb (list_eqb N.eqb (s_low (n_a c)) (s_low (n_b c))) then [4] else []
  | SOther => []
  end.
Definition monitor_failures (cs : list case) : list (N * list N) :=
  let fix go (i : N) (l : list case) :=
    match l with
    | [] => []
    | c :: t => match monitor c with [] => go (N.succ i) t | cl => (i, cl) :: go (N.succ i) t end
    end in go 0%N cs.
Definition tag (c : case) : N :=
  (match n_set c with SNoop => 1 | SCasefold => 2 | SOther => 3 end)
  + (if list_eqb N.eqb (s_low (n_a c)) (s_low (n_b c)) then 8 else 0)
  + (if same_out (n_a c) (n_b c) then 16 else 0).
Definition tags (cs : list case) : list N := map tag cs.

(* a setting that meets its contract keeps apart what the contract keeps apart *)
Lemma contract_separates c : agrees c = true -> monitor c = [].
Proof.
  unfold agrees, side_ok, monitor, contract, same_out, out_eqb, option_eqb.
  change (list_eqb N.eqb) with str_eqb.
  destruct (n_set c); intros H; try reflexivity;
    apply andb_true_iff in H; destruct H as [Ha Hb];
    destruct (s_out (n_a c)) as [x|]; destruct (s_out (n_b c)) as [y|]; try discriminate; try reflexivity;
    (destruct (str_eqb x y) eqn:E; [|reflexivity]);
    apply str_eqb_eq in Ha; apply str_eqb_eq in Hb; apply str_eqb_eq in E;
    rewrite Ha, Hb, E, str_eqb_refl; reflexivity.
Qed.
