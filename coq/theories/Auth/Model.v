(* C14: password authentication.  The credentials table of auth.pass_table (user key ->
   scheme and hash), account management, the SASL layer (PLAIN, LOGIN, auth_map_normalize and
   auth_map) and the submission gate of the SMTP session.  Definitions only.

   Hashing is modelled by what a stored hash determines about later verification: a stored
   credential is the scheme together with the password it was computed from; bcrypt compares the
   72-byte key-schedule input (the password, a NUL byte, repeated cyclically), argon2 compares
   the whole password (collisions of the hash function are outside the model). *)
From Maddy Require Export Lib.Base.
Local Open Scope N_scope.

Inductive scheme := SBcrypt | SArgon2 | SSha256.
Definition scheme_eqb (a b : scheme) : bool :=
  match a, b with SBcrypt, SBcrypt | SArgon2, SArgon2 | SSha256, SSha256 => true | _, _ => false end.

Record cred := { cr_scheme : scheme; cr_pw : str }.
Definition table := list (str * cred).

(* ---- hash schemes ---- *)
Fixpoint cycle_take (n : nat) (cur whole : str) : str :=
  match n with
  | O => []
  | S n' => match cur with
            | c :: t => c :: cycle_take n' t whole
            | [] => match whole with
                    | c :: t => c :: cycle_take n' t whole
                    | [] => []
                    end
            end
  end.
Definition bkey (p : str) : str := let k := p ++ [0] in cycle_take 72 k k.

(* HashCompute: bcrypt refuses more than 72 bytes, sha256 is listed but has no implementation *)
Definition compute_ok (s : scheme) (pw : str) : bool :=
  match s with
  | SBcrypt => Nat.leb (length pw) 72
  | SArgon2 => true
  | SSha256 => false
  end.
Definition verify (c : cred) (supplied : str) : bool :=
  match cr_scheme c with
  | SBcrypt => str_eqb (bkey (cr_pw c)) (bkey supplied)
  | SArgon2 => str_eqb (cr_pw c) supplied
  | SSha256 => false
  end.

(* ---- table ---- *)
Definition tget (t : table) (k : str) : option cred := alookup str_eqb k t.
Fixpoint tdel (t : table) (k : str) : table :=
  match t with
  | [] => []
  | (k', v) :: r => if str_eqb k k' then tdel r k else (k', v) :: tdel r k
  end.
Definition tset (t : table) (k : str) (v : cred) : table := (k, v) :: tdel t k.

Section Auth.
  Variable norm : str -> option str.          (* precis.UsernameCaseMapped.CompareKey *)

  Inductive mop :=
  | MCreate (u pw : str) (s : scheme)          (* CreateUserHash *)
  | MSet (u pw : str)                          (* SetUserPassword: always bcrypt *)
  | MDelete (u : str).                         (* DeleteUser *)

  (* the new table and whether the operation reported success *)
  Definition manage (t : table) (o : mop) : table * bool :=
    match o with
    | MCreate u pw s =>
        match norm u with
        | None => (t, false)
        | Some k => match tget t k with
                    | Some _ => (t, false)
                    | None => if compute_ok s pw then (tset t k {| cr_scheme := s; cr_pw := pw |}, true)
                              else (t, false)
                    end
        end
    | MSet u pw =>
        match norm u with
        | None => (t, false)
        | Some k => if compute_ok SBcrypt pw then (tset t k {| cr_scheme := SBcrypt; cr_pw := pw |}, true)
                    else (t, false)
        end
    | MDelete u =>
        match norm u with
        | None => (t, false)
        | Some k => (tdel t k, true)
        end
    end.

  (* pass_table.AuthPlain *)
  Definition auth_direct (t : table) (u pw : str) : bool :=
    match norm u with
    | None => false
    | Some k => match tget t k with
                | None => false
                | Some c => verify c pw
                end
    end.

  (* ---- SASL layer ---- *)
  Variable snorm : str -> option str.          (* auth_map_normalize *)
  Variable amap : option (str -> option str).  (* auth_map; None = not configured *)

  Definition username_for_auth (u : str) : option str :=
    match snorm u with
    | None => None
    | Some n => match amap with
                | None => Some n
                | Some m => m n
                end
    end.
  Definition sasl_auth_plain (t : table) (u pw : str) : bool :=
    match username_for_auth u with
    | None => false
    | Some m => auth_direct t m pw
    end.
  (* result of an exchange: the identity reported to the session on success *)
  Definition sasl_plain (t : table) (authzid u pw : str) : option str :=
    let identity := match authzid with [] => u | _ => authzid end in
    if negb (str_eqb identity u) then None
    else if sasl_auth_plain t u pw then Some identity else None.
  Definition sasl_login (t : table) (u pw : str) : option str :=
    if sasl_auth_plain t u pw then Some u else None.

  Inductive op :=
  | OManage (m : mop)
  | ODirect (u pw : str)
  | OPlain (authzid u pw : str)
  | OLogin (u pw : str).
  Inductive out :=
  | RManage (ok : bool)
  | RDirect (ok : bool)
  | RSasl (identity : option str).

  Definition step (t : table) (o : op) : table * out :=
    match o with
    | OManage m => let r := manage t m in (fst r, RManage (snd r))
    | ODirect u pw => (t, RDirect (auth_direct t u pw))
    | OPlain a u pw => (t, RSasl (sasl_plain t a u pw))
    | OLogin u pw => (t, RSasl (sasl_login t u pw))
    end.
  Fixpoint run (t : table) (ops : list op) : table * list out :=
    match ops with
    | [] => (t, [])
    | o :: r => let s := step t o in let rr := run (fst s) r in (fst rr, snd s :: snd rr)
    end.

  (* ---- reference: the password most recently set for a key, history newest first ---- *)
  Definition affects (m : mop) (k : str) : bool :=
    match m with
    | MCreate u _ _ | MSet u _ | MDelete u => match norm u with Some k' => str_eqb k k' | None => false end
    end.
  Fixpoint current (h : list mop) (k : str) : option cred :=
    match h with
    | [] => None
    | m :: older =>
        if affects m k then
          match m with
          | MSet _ pw => if compute_ok SBcrypt pw then Some {| cr_scheme := SBcrypt; cr_pw := pw |} else current older k
          | MDelete _ => None
          | MCreate _ pw s =>
              match current older k with
              | Some c => Some c                                (* the account exists: refused *)
              | None => if compute_ok s pw then Some {| cr_scheme := s; cr_pw := pw |} else None
              end
          end
        else current older k
    end.
  Definition mops_of (ops : list op) : list mop :=
    flat_map (fun o => match o with OManage m => [m] | _ => [] end) ops.
End Auth.

(* ---- the SMTP session gate (internal/endpoint/smtp/session.go) ---- *)
Inductive scmd :=
| CAuth (result : option str)     (* a SASL exchange and the identity it reported, None = failed *)
| CMail
| CRset.
Record sess := { s_user : str }.    (* connState.AuthUser; empty = not authenticated *)
Definition sess_step (auth_required : bool) (s : sess) (c : scmd) : sess * bool :=
  match c with
  | CAuth (Some id) => ({| s_user := id |}, true)
  | CAuth None => (s, false)
  | CMail => (s, negb (auth_required && match s_user s with [] => true | _ => false end))
  | CRset => (s, true)
  end.
Fixpoint sess_run (ar : bool) (s : sess) (cs : list scmd) : list bool :=
  match cs with
  | [] => []
  | c :: r => let x := sess_step ar s c in snd x :: sess_run ar (fst x) r
  end.
