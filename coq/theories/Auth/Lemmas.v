From Maddy Require Import Lib.Base Auth.Model.
From Coq Require Import Lia.
Local Open Scope N_scope.

Lemma str_eqb_refl s : str_eqb s s = true.
Proof. induction s as [|c s IH]; cbn; [reflexivity|]. rewrite N.eqb_refl. exact IH. Qed.
Lemma str_eqb_eq a b : str_eqb a b = true <-> a = b.
Proof.
  revert b; induction a as [|x a IH]; intros [|y b]; cbn; split; intro H; try reflexivity; try discriminate.
  - apply andb_prop in H as [H1 H2]. apply N.eqb_eq in H1. apply IH in H2. congruence.
  - inversion H; subst. rewrite N.eqb_refl. cbn. apply IH. reflexivity.
Qed.
Lemma str_eqb_sym a b : str_eqb a b = str_eqb b a.
Proof.
  destruct (str_eqb a b) eqn:E.
  - apply str_eqb_eq in E. subst. symmetry. apply str_eqb_refl.
  - destruct (str_eqb b a) eqn:E2; [|reflexivity]. apply str_eqb_eq in E2. subst. rewrite str_eqb_refl in E. discriminate.
Qed.

Lemma tget_tdel_same t k : tget (tdel t k) k = None.
Proof.
  induction t as [|[k' v] t IH]; cbn; [reflexivity|].
  destruct (str_eqb k k') eqn:E; [exact IH|]. unfold tget in *. cbn. rewrite E. exact IH.
Qed.
Lemma tget_tdel_other t k k' : str_eqb k' k = false -> tget (tdel t k) k' = tget t k'.
Proof.
  intro Hne. induction t as [|[k2 v] t IH]; cbn; [reflexivity|]. unfold tget in *.
  destruct (str_eqb k k2) eqn:E; cbn.
  - apply str_eqb_eq in E. subst k2. rewrite Hne. exact IH.
  - destruct (str_eqb k' k2); [reflexivity|exact IH].
Qed.
Lemma tget_tset_same t k v : tget (tset t k v) k = Some v.
Proof. unfold tget, tset. cbn. rewrite str_eqb_refl. reflexivity. Qed.
Lemma tget_tset_other t k v k' : str_eqb k' k = false -> tget (tset t k v) k' = tget t k'.
Proof. intro H. unfold tset, tget. cbn. rewrite H. apply (tget_tdel_other t k k' H). Qed.

Section Auth.
  Variable norm : str -> option str.
  Variable snorm : str -> option str.
  Variable amap : option (str -> option str).

  Definition manage_all (t : table) (h : list mop) : table := fold_left (fun t m => fst (manage norm t m)) h t.

  Lemma manage_all_app t h1 h2 : manage_all t (h1 ++ h2) = manage_all (manage_all t h1) h2.
  Proof. apply fold_left_app. Qed.

  (* one management operation against the reference *)
  Lemma manage_current t h m k :
    (forall k, tget t k = current norm h k) ->
    tget (fst (manage norm t m)) k = current norm (m :: h) k.
  Proof.
    intro Hinv. cbn [current]. unfold affects.
    destruct m as [u pw s | u pw | u]; cbn [manage].
    - destruct (norm u) as [ku|] eqn:En; [|cbn [fst]; apply Hinv].
      destruct (str_eqb k ku) eqn:Ek.
      + apply str_eqb_eq in Ek. subst ku. rewrite <- Hinv.
        destruct (tget t k) as [c|] eqn:Eg; cbn [fst]; [exact Eg|].
        destruct (compute_ok s pw); cbn [fst]; [apply tget_tset_same|exact Eg].
      + destruct (tget t ku); cbn [fst]; [apply Hinv|].
        destruct (compute_ok s pw); cbn [fst]; [|apply Hinv].
        rewrite tget_tset_other by exact Ek. apply Hinv.
    - destruct (norm u) as [ku|] eqn:En; [|cbn [fst]; apply Hinv].
      destruct (str_eqb k ku) eqn:Ek.
      + apply str_eqb_eq in Ek. subst ku.
        destruct (compute_ok SBcrypt pw); cbn [fst]; [apply tget_tset_same|apply Hinv].
      + destruct (compute_ok SBcrypt pw); cbn [fst]; [|apply Hinv].
        rewrite tget_tset_other by exact Ek. apply Hinv.
    - destruct (norm u) as [ku|] eqn:En; [|cbn [fst]; apply Hinv].
      destruct (str_eqb k ku) eqn:Ek; cbn [fst].
      + apply str_eqb_eq in Ek. subst ku. apply tget_tdel_same.
      + rewrite tget_tdel_other by exact Ek. apply Hinv.
  Qed.

  (* the table after any management history holds, for every key, the credential most
     recently set for it *)
  Lemma table_is_current h k : tget (manage_all [] h) k = current norm (rev h) k.
  Proof.
    revert k. induction h as [|m h IH] using rev_ind; intro k; [reflexivity|].
    rewrite manage_all_app, rev_app_distr. cbn [rev app manage_all fold_left].
    apply manage_current. exact IH.
  Qed.

  Lemma run_table t ops : fst (run norm snorm amap t ops) = manage_all t (mops_of ops).
  Proof.
    revert t; induction ops as [|o ops IH]; intro t; [reflexivity|].
    cbn [run fst]. rewrite IH. destruct o as [m| | |]; cbn; reflexivity.
  Qed.

  Lemma auth_direct_iff t u pw :
    auth_direct norm t u pw = true <->
    exists k c, norm u = Some k /\ tget t k = Some c /\ verify c pw = true.
  Proof.
    unfold auth_direct. split.
    - destruct (norm u) as [k|]; [|discriminate]. destruct (tget t k) as [c|] eqn:E; [|discriminate].
      intro H. exists k, c. auto.
    - intros (k & c & Hn & Hg & Hv). rewrite Hn, Hg. exact Hv.
  Qed.

  Lemma succeeds_iff_current h u pw :
    auth_direct norm (manage_all [] h) u pw = true <->
    exists k c, norm u = Some k /\ current norm (rev h) k = Some c /\ verify c pw = true.
  Proof.
    rewrite auth_direct_iff. split; intros (k & c & Hn & Hg & Hv); exists k, c; repeat split; auto.
    - rewrite <- table_is_current. exact Hg.
    - rewrite table_is_current. exact Hg.
  Qed.

  (* authentication reads the table only *)
  Lemma run_auth_only_table t ops :
    (forall o, In o ops -> match o with OManage _ => False | _ => True end) ->
    fst (run norm snorm amap t ops) = t.
  Proof.
    intro H. rewrite run_table. replace (mops_of ops) with (@nil mop); [reflexivity|].
    induction ops as [|o ops IH]; [reflexivity|]. cbn.
    assert (Ho := H o (or_introl eq_refl)). destruct o; cbn; try contradiction;
      apply IH; intros o' Hi; apply H; right; exact Hi.
  Qed.

  Lemma plain_login_agree t u pw :
    sasl_plain norm snorm amap t [] u pw = sasl_login norm snorm amap t u pw.
  Proof. unfold sasl_plain, sasl_login. rewrite str_eqb_refl. reflexivity. Qed.
  Lemma plain_login_agree_authzid t u pw :
    sasl_plain norm snorm amap t u u pw = sasl_login norm snorm amap t u pw.
  Proof.
    unfold sasl_plain, sasl_login. destruct u as [|c u]; rewrite str_eqb_refl; reflexivity.
  Qed.
  Lemma authzid_mismatch_refused t a u pw :
    a <> [] -> a <> u -> sasl_plain norm snorm amap t a u pw = None.
  Proof.
    intros Ha Hne. unfold sasl_plain. destruct a as [|c a]; [contradiction|].
    destruct (str_eqb (c :: a) u) eqn:E; [apply str_eqb_eq in E; contradiction|reflexivity].
  Qed.
  Lemma sasl_identity t a u pw id :
    sasl_plain norm snorm amap t a u pw = Some id -> id = u /\ sasl_auth_plain norm snorm amap t u pw = true.
  Proof.
    unfold sasl_plain. set (i := match a with [] => u | _ => a end).
    destruct (str_eqb i u) eqn:E; cbn; [|discriminate]. apply str_eqb_eq in E.
    destruct (sasl_auth_plain norm snorm amap t u pw); [|discriminate]. intro H; inversion H. split; congruence.
  Qed.
  Lemma sasl_auth_iff t u pw :
    sasl_auth_plain norm snorm amap t u pw = true <->
    exists m, username_for_auth snorm amap u = Some m /\ auth_direct norm t m pw = true.
  Proof.
    unfold sasl_auth_plain. destruct (username_for_auth snorm amap u) as [m|]; split.
    - intro H; exists m; auto.
    - intros (m' & Hm & H). inversion Hm; subst; exact H.
    - discriminate.
    - intros (m' & Hm & _). discriminate.
  Qed.
End Auth.

(* ---- bcrypt key facts ---- *)
Lemma cycle_take_prefix n (cur whole : str) :
  (n <= length cur)%nat -> cycle_take n cur whole = firstn n cur.
Proof.
  revert cur; induction n as [|n IH]; intros cur H; [reflexivity|].
  destruct cur as [|c cur]; [cbn in H; lia|]. cbn. f_equal. apply IH. cbn in H. lia.
Qed.
Lemma firstn_app_inj (a b : str) (x y : N) n :
  (length a < n)%nat -> (length b < n)%nat ->
  ~ In x a -> ~ In x b ->
  firstn n (a ++ [x]) = firstn n (b ++ [x]) -> a = b.
Proof.
  intros Ha Hb. rewrite !firstn_all2 by (rewrite app_length; cbn; lia).
  revert b Hb; induction a as [|c a IH]; intros [|d b] Hb Hx Hy H; cbn in *; try reflexivity.
  - inversion H; subst. exfalso; apply Hy; left; reflexivity.
  - inversion H; subst. exfalso; apply Hx; left; reflexivity.
  - inversion H; subst. f_equal. apply IH; try lia; tauto.
Qed.
Lemma cycle_take_head (p : str) n whole :
  (length p < n)%nat -> ~ In 0 p -> exists rest, cycle_take n (p ++ [0]) whole = p ++ 0 :: rest.
Proof.
  revert n; induction p as [|c p IH]; intros n Hl Hz.
  - destruct n; [cbn in Hl; lia|]. cbn. eexists; reflexivity.
  - destruct n; [cbn in Hl; lia|]. cbn [app cycle_take].
    destruct (IH n) as [r Hr]; [cbn in Hl; lia|cbn in Hz; tauto|]. rewrite Hr. eexists; reflexivity.
Qed.
Lemma nul_terminated_inj (a b ra rb : str) :
  ~ In 0 a -> ~ In 0 b -> a ++ 0 :: ra = b ++ 0 :: rb -> a = b.
Proof.
  revert b; induction a as [|c a IH]; intros [|d b] Hza Hzb H; cbn in *; try reflexivity.
  - inversion H; subst. exfalso; apply Hzb; left; reflexivity.
  - inversion H; subst. exfalso; apply Hza; left; reflexivity.
  - inversion H; subst. f_equal. apply IH; tauto.
Qed.
Lemma cycle_key_inj n a b :
  (length a < n)%nat -> (length b < n)%nat -> ~ In 0 a -> ~ In 0 b ->
  cycle_take n (a ++ [0]) (a ++ [0]) = cycle_take n (b ++ [0]) (b ++ [0]) -> a = b.
Proof.
  intros Ha Hb Hza Hzb H.
  destruct (cycle_take_head a n (a ++ [0]) Ha Hza) as [ra Era].
  destruct (cycle_take_head b n (b ++ [0]) Hb Hzb) as [rb Erb].
  rewrite Era, Erb in H. eapply nul_terminated_inj; eauto.
Qed.
(* without NUL bytes and below 72 bytes the bcrypt key determines the password *)
Lemma bkey_inj a b :
  (length a < 72)%nat -> (length b < 72)%nat -> ~ In 0 a -> ~ In 0 b -> bkey a = bkey b -> a = b.
Proof. unfold bkey. apply cycle_key_inj. Qed.

(* ---- session gate ---- *)
Lemma sess_mail_needs_auth cs s :
  s_user s = [] ->
  forall i, nth_error (sess_run true s cs) i = Some true -> nth_error cs i = Some CMail ->
  exists j id, (j < i)%nat /\ nth_error cs j = Some (CAuth (Some id)) /\ id <> [].
Proof.
  revert s; induction cs as [|c cs IH]; intros s Hs i Hr Hc; [destruct i; discriminate|].
  destruct i as [|i].
  - cbn in Hc. inversion Hc; subst c. cbn in Hr. rewrite Hs in Hr. discriminate.
  - cbn in Hr, Hc. destruct c as [[id|]| |]; cbn in Hr.
    + destruct id as [|x id].
      * destruct (IH {| s_user := [] |} eq_refl i Hr Hc) as (j & id' & Hj & Hn & Hne).
        exists (S j), id'. split; [lia|split; assumption].
      * exists 0%nat, (x :: id). split; [lia|split; [reflexivity|discriminate]].
    + destruct (IH s Hs i Hr Hc) as (j & id' & Hj & Hn & Hne). exists (S j), id'. split; [lia|split; assumption].
    + destruct (IH s Hs i Hr Hc) as (j & id' & Hj & Hn & Hne). exists (S j), id'. split; [lia|split; assumption].
    + destruct (IH s Hs i Hr Hc) as (j & id' & Hj & Hn & Hne). exists (S j), id'. split; [lia|split; assumption].
Qed.
