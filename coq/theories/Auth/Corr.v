(* C14 correspondence and monitor.  The PRECIS profile, auth_map_normalize and the auth_map
   table are instantiated per case by finite tables recorded from the real functions on exactly
   the strings the case uses. *)
From Maddy Require Export Lib.Base Auth.Model.
Local Open Scope N_scope.

Definition otab := list (str * option str).
Definition tab_fun (t : otab) (s : str) : option str :=
  match alookup str_eqb s t with Some v => v | None => None end.

Inductive case :=
| CHist (norm snorm : otab) (amap : option otab) (ops : list op) (outs : list out)
| CSess (auth_required : bool) (cmds : list scmd) (replies : list bool).

Definition out_eqb (a b : out) : bool :=
  match a, b with
  | RManage x, RManage y | RDirect x, RDirect y => Bool.eqb x y
  | RSasl x, RSasl y => option_eqb str_eqb x y
  | _, _ => false
  end.

Definition agrees (c : case) : bool :=
  match c with
  | CHist n sn am ops outs =>
      list_eqb out_eqb (snd (run (tab_fun n) (tab_fun sn) (option_map tab_fun am) [] ops)) outs
  | CSess ar cmds replies => list_eqb Bool.eqb (sess_run ar {| s_user := [] |} cmds) replies
  end.
Definition mismatches (cs : list case) : list N := find_idx (fun c => negb (agrees c)) cs.

(* ---- monitor: the statement of the property on what the implementation returned ---- *)
Section Mon.
  Variable norm snorm : str -> option str.
  Variable amap : option (str -> option str).

  (* should authentication of account name [u] with [pw] succeed after history [h] (newest first)?
     first component: by the statement (the password is the one most recently set);
     second: the supplied password differs from it but has the same bcrypt key *)
  Definition expected (h : list mop) (u pw : str) : bool * bool :=
    match norm u with
    | None => (false, false)
    | Some k => match current norm h k with
                | None => (false, false)
                | Some c => (str_eqb (cr_pw c) pw,
                             negb (str_eqb (cr_pw c) pw) && scheme_eqb (cr_scheme c) SBcrypt
                             && str_eqb (bkey (cr_pw c)) (bkey pw))
                end
    end.
  Definition judge (e : bool * bool) (got : bool) : list N :=
    if Bool.eqb got (fst e) then [] else if snd e && got then [104] else [1].

  Definition mon_step (h : list mop) (o : op) (r : out) (next : option (op * out)) : list N :=
    match o, r with
    | ODirect u pw, RDirect ok => judge (expected h u pw) ok
    | OPlain a u pw, RSasl res =>
        let legit := match a with [] => true | _ => str_eqb a u end in
        (if negb legit then match res with Some _ => [3] | None => [] end
         else
           let e := match username_for_auth snorm amap u with
                    | Some m => expected h m pw
                    | None => (false, false) end in
           judge e (match res with Some _ => true | None => false end)
           ++ (match res with Some id => if str_eqb id u then [] else [4] | None => [] end)
           ++ (match next with
               | Some (OLogin u' pw', RSasl res') =>
                   if str_eqb u u' && str_eqb pw pw' && negb (option_eqb str_eqb res res') then [2] else []
               | _ => [] end))
    | OLogin u pw, RSasl res =>
        let e := match username_for_auth snorm amap u with
                 | Some m => expected h m pw
                 | None => (false, false) end in
        judge e (match res with Some _ => true | None => false end)
        ++ (match res with Some id => if str_eqb id u then [] else [4] | None => [] end)
    | OManage _, RManage _ => []
    | _, _ => [5]            (* a reply of the wrong kind *)
    end.

  Fixpoint mon_go (h : list mop) (ops : list op) (outs : list out) : list N :=
    match ops, outs with
    | o :: ops', r :: outs' =>
        mon_step h o r (match ops', outs' with o2 :: _, r2 :: _ => Some (o2, r2) | _, _ => None end)
        ++ mon_go (match o with OManage m => m :: h | _ => h end) ops' outs'
    | _, _ => []
    end.
End Mon.

(* a submission session: MAIL accepted although no AUTH succeeded before it *)
Fixpoint sess_mon (authed : bool) (cmds : list scmd) (replies : list bool) : list N :=
  match cmds, replies with
  | c :: cs, r :: rs =>
      match c with
      | CMail => (if r && negb authed then [6] else []) ++ sess_mon authed cs rs
      | CAuth (Some (_ :: _)) => sess_mon (authed || r) cs rs
      | _ => sess_mon authed cs rs
      end
  | _, _ => []
  end.

Definition monitor (c : case) : list N :=
  match c with
  | CHist n sn am ops outs => mon_go (tab_fun n) (tab_fun sn) (option_map tab_fun am) [] ops outs
  | CSess ar cmds replies => if ar then sess_mon false cmds replies else []
  end.

Definition dedup_N (l : list N) : list N :=
  fold_right (fun x acc => if existsb (N.eqb x) acc then acc else x :: acc) [] l.
Definition monitor_failures (cs : list case) : list (N * list N) :=
  let fix go (i : N) (l : list case) :=
    match l with
    | [] => []
    | c :: t => match dedup_N (monitor c) with [] => go (N.succ i) t | cl => (i, cl) :: go (N.succ i) t end
    end in go 0%N cs.

Definition tag (c : case) : N :=
  match c with
  | CHist n sn am ops outs =>
      (if existsb (fun r => match r with RDirect true => true | _ => false end) outs then 1 else 0)
      + (if existsb (fun r => match r with RSasl (Some _) => true | _ => false end) outs then 2 else 0)
      + (if existsb (fun r => match r with RManage false => true | _ => false end) outs then 4 else 0)
      + (match am with Some _ => 8 | None => 0 end)
      + (if existsb (fun o => match o with OManage (MDelete _) => true | _ => false end) ops then 16 else 0)
      + (if existsb (fun o => match o with OManage (MCreate _ _ SArgon2) => true | _ => false end) ops then 32 else 0)
      + (if existsb (fun kv => match snd kv with Some v => negb (str_eqb v (fst kv)) | None => false end) n then 64 else 0)
      + (if existsb (fun o => match o with OPlain (_ :: _) _ _ => true | _ => false end) ops then 128 else 0)
  | CSess ar cmds replies => 256 + (if ar then 512 else 0) + (if existsb (fun b => b) replies then 1024 else 0)
  end.
Definition tags (cs : list case) : list N := map tag cs.
