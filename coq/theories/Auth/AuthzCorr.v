(* C15 correspondence and monitor; oracles instantiated by per-case tables *)
From Maddy Require Export Lib.Base Auth.Authz.
Local Open Scope N_scope.

Definition otab := list (str * option str).
Definition tab_fun (t : otab) (s : str) : option str :=
  match alookup str_eqb s t with Some v => v | None => None end.
Definition ltab := list (str * option (list str)).
Definition ltab_fun (t : ltab) (s : str) : option (list str) :=
  match alookup str_eqb s t with Some v => v | None => None end.
Definition ptab := list (str * prep).
Definition ptab_fun (t : ptab) (s : str) : prep :=
  match alookup str_eqb s t with Some v => v | None => PMiss end.

Record case := {
  c_cfg : config; c_fnorm : otab; c_anorm : otab; c_prep : ptab; c_u2e : ltab; c_split : otab;
  c_plist : ltab; c_paddr : otab;
  c_conn : bool; c_auth : str; c_mf : str; c_hdr : list (str * str);
  c_sender : result; c_body : result }.

Definition result_eqb (a b : result) : bool :=
  (r_reason a =? r_reason b) && Bool.eqb (r_reject a) (r_reject b) && Bool.eqb (r_quar a) (r_quar b).

Definition model_sender (c : case) : result :=
  check_sender (c_cfg c) (tab_fun (c_fnorm c)) (tab_fun (c_anorm c)) (ptab_fun (c_prep c))
    (ltab_fun (c_u2e c)) (tab_fun (c_split c)) (c_conn c) (c_auth c) (c_mf c).
Definition model_body (c : case) : result :=
  check_body (c_cfg c) (tab_fun (c_fnorm c)) (tab_fun (c_anorm c)) (ptab_fun (c_prep c))
    (ltab_fun (c_u2e c)) (tab_fun (c_split c)) (ltab_fun (c_plist c)) (tab_fun (c_paddr c))
    (c_conn c) (c_auth c) (c_hdr c).
Definition agrees (c : case) : bool :=
  result_eqb (model_sender c) (c_sender c) && result_eqb (model_body c) (c_body c).
Definition mismatches (cs : list case) : list N := find_idx (fun c => negb (agrees c)) cs.

(* the reference entitlement, decided on the recorded tables *)
Definition entitled_b (c : case) (addr : str) : bool :=
  match c_auth c with
  | [] => false
  | auth =>
    match tab_fun (c_fnorm c) addr, tab_fun (c_anorm c) auth with
    | Some fn, Some an =>
        match ltab_fun (c_u2e c) an with
        | Some valid =>
            existsb (fun a => match tab_fun (c_split c) a with
                              | Some d => ent_matches valid a d
                              | None => false end)
                    (match ptab_fun (c_prep c) fn with PHit l => l | _ => [fn] end)
        | None => false
        end
    | _, _ => false
    end
  end.

Definition is_reject (a : action) : bool := a_reject a.
Definition monitor (c : case) : list N :=
  let cf := c_cfg c in
  if negb (c_conn c && is_reject (unauth_action cf) && is_reject (no_match_action cf) && is_reject (err_action cf)) then []
  else if r_reject (c_sender c) || r_reject (c_body c) then
    (* refused: nothing to check, except that an unauthenticated client gets the 530 reply *)
    (match c_auth c with [] => if r_reject (c_sender c) then [] else [1] | _ => [] end)
  else
    (match c_auth c with [] => [1] | _ => [] end) ++
    (if entitled_b c (c_mf c) then [] else [2]) ++
    (if negb (check_header cf) then []
     else
       let froms := values (c_hdr c) K_FROM in
       let senders := values (c_hdr c) K_SENDER in
       let from_ok := match froms with [] => false | _ =>
                        forallb (fun v => match ltab_fun (c_plist c) v with
                                          | Some ((_ :: _) as l) => forallb (entitled_b c) l
                                          | _ => false end) froms end in
       let sender_ok := match senders with [] => false | _ =>
                          forallb (fun v => match tab_fun (c_paddr c) v with
                                            | Some a => entitled_b c a
                                            | None => false end) senders end in
       if from_ok || sender_ok then [] else [3]).

Definition dedup_N (l : list N) : list N :=
  fold_right (fun x acc => if existsb (N.eqb x) acc then acc else x :: acc) [] l.
Definition monitor_failures (cs : list case) : list (N * list N) :=
  let fix go (i : N) (l : list case) :=
    match l with
    | [] => []
    | c :: t => match dedup_N (monitor c) with [] => go (N.succ i) t | cl => (i, cl) :: go (N.succ i) t end
    end in go 0%N cs.

Definition tag (c : case) : N :=
  (if r_reject (c_sender c) then 0 else 1) + (if r_reject (c_body c) then 0 else 2)
  + (if Nat.ltb 1 (length (values (c_hdr c) K_FROM)) then 4 else 0)
  + (match values (c_hdr c) K_SENDER with [] => 0 | _ => 8 end)
  + (if r_reason (c_body c) =? 0 then 16 else 0)
  + (match c_auth c with [] => 32 | _ => 0 end)
  + (if existsb (fun kv => match snd kv with Some v => negb (str_eqb v (fst kv)) | None => false end) (c_fnorm c) then 64 else 0)
  + (if is_reject (no_match_action (c_cfg c)) then 0 else 128)
  + (if existsb (fun kv => match snd kv with Some (_ :: _ :: _) => true | _ => false end) (c_plist c) then 256 else 0).
Definition tags (cs : list case) : list N := map tag cs.
