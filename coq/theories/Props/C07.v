(* C07 - DMARC verdict and action equal the specification for every input. *)
From Maddy Require Import Lib.Base Dmarc.Model Dmarc.Lemmas.
Local Open Scope N_scope.

(* pass <-> an aligned passing DKIM signature or the aligned passing SPF identity exists; any
   public-suffix list, any number of results (DKIM and SPF both evaluated, one SPF result) *)
Theorem C07_pass_iff_aligned :
  forall org psuffix from r rs,
    existsb is_dkim rs = true -> existsb is_spf rs = true ->
    (length (filter is_spf rs) <= 1)%nat ->
    (evaluate_alignment org psuffix from r rs = Pass <->
     existsb (dkim_aligned_pass org psuffix from r) rs
     || existsb (spf_aligned_pass org psuffix from r) rs = true).
Proof. exact pass_iff_aligned. Qed.
Print Assumptions C07_pass_iff_aligned.

Theorem C07_none_when_not_evaluated :
  forall org psuffix from r rs,
    existsb is_dkim rs = false \/ existsb is_spf rs = false ->
    evaluate_alignment org psuffix from r rs = RNone.
Proof. exact none_when_not_evaluated. Qed.
Print Assumptions C07_none_when_not_evaluated.

(* temperror <-> alignment left undecided by a temporary authentication error *)
Theorem C07_temperror_iff_undecided :
  forall org psuffix from r rs,
    existsb is_dkim rs = true -> existsb is_spf rs = true ->
    (evaluate_alignment org psuffix from r rs = TempError <-> undecided org psuffix from r rs = true).
Proof. exact temperror_iff_undecided. Qed.
Print Assumptions C07_temperror_iff_undecided.

(* a non-pass verdict leads to exactly the published policy: p, or sp for subdomains *)
Theorem C07_action_is_published :
  forall org psuffix zone from pd r rs,
    fetch_record org zone from = FRec pd r ->
    let v := evaluate_alignment org psuffix from r rs in
    v <> Pass -> v <> RNone ->
    apply org psuffix (HOne from) zone rs = (v, published r pd from).
Proof. exact apply_published. Qed.
Print Assumptions C07_action_is_published.

Theorem C07_pass_accepts :
  forall org psuffix zone from pd r rs,
    fetch_record org zone from = FRec pd r ->
    evaluate_alignment org psuffix from r rs = Pass ->
    apply org psuffix (HOne from) zone rs = (Pass, PNone).
Proof. exact apply_pass_accepts. Qed.
Print Assumptions C07_pass_accepts.

(* reject refuses with a permanent code, except for an undecided (temperror) verdict *)
Theorem C07_reject_is_permanent :
  forall v, v <> TempError -> action_of v PReject = Reject 550 5 7 1.
Proof. exact action_reject. Qed.
Print Assumptions C07_reject_is_permanent.

Theorem C07_temperror_under_reject_is_temporary :
  action_of TempError PReject = Reject 450 4 7 1.
Proof. exact action_reject_temp. Qed.
Print Assumptions C07_temperror_under_reject_is_temporary.

(* temporary DNS failure while fetching the policy (at the domain or at the organizational
   domain): refused with a temporary code *)
Theorem C07_temp_dns_fail_closed :
  forall org psuffix zone from rs,
    fetch_record org zone from = FErrTempDns ->
    let '(v, p) := apply org psuffix (HOne from) zone rs in action_of v p = Reject 450 4 7 1.
Proof. exact temp_dns_fail_closed. Qed.
Print Assumptions C07_temp_dns_fail_closed.

Theorem C07_fetch_temp_at_domain :
  forall org zone from, zone from = LErrTemp -> fetch_record org zone from = FErrTempDns.
Proof. exact fetch_temp. Qed.
Print Assumptions C07_fetch_temp_at_domain.

Theorem C07_fetch_temp_at_org :
  forall org zone from od,
    (zone from = LNotFound \/ zone from = LTxt []) -> org (lower_ascii from) = Some od ->
    zone od = LErrTemp -> fetch_record org zone from = FErrTempDns.
Proof. exact fetch_temp_org. Qed.
Print Assumptions C07_fetch_temp_at_org.

Theorem C07_fetch_org_fallback :
  forall org zone from od r,
    (zone from = LNotFound \/ zone from = LTxt []) -> org (lower_ascii from) = Some od ->
    zone od = LTxt [TDmarc (Some r)] -> fetch_record org zone from = FRec od r.
Proof. exact fetch_org_fallback. Qed.
Print Assumptions C07_fetch_org_fallback.

(* no or several author addresses never obtain a pass *)
Theorem C07_bad_from_never_passes :
  forall org psuffix zone rs, apply org psuffix HBad zone rs = (PermError, PNone).
Proof. exact bad_from_never_passes. Qed.
Print Assumptions C07_bad_from_never_passes.

Example C07_nonvacuous :
  let org := fun d : str => Some d in let suf := fun _ : str => [99] in
  let r := {| r_p := PReject; r_sp := None; r_adkim := Strict; r_aspf := Relaxed; r_pct := None |} in
  let rs := [ADkim Fail [97]; ASpf Pass [97] []; ADkim Pass [97]] in
  existsb is_dkim rs = true /\ existsb is_spf rs = true /\
  evaluate_alignment org suf [97] r rs = Pass /\
  evaluate_alignment org suf [98] r rs = Fail.
Proof. vm_compute. auto. Qed.
