(* C12: the statements.  This file contains nothing but the property theorems. *)
From Maddy Require Import Lib.Base Conc.Wheel Conc.WheelLemmas.
Local Open Scope N_scope.

(* In every state reachable by any interleaving of any number of producers inside Add (stopped
   check, push, send or release), the tick goroutine (scan, wait, fire), the clock, the attempts
   and one shutdown, for any capacity of the delivery semaphore: every dispatched entry was added,
   is dispatched at most once, not before its time, is no longer in the wheel, and is counted as
   an attempt. *)
Theorem C12_dispatched_once_not_early :
  forall cap s, reach cap s ->
    NoDup (map fst (dispatched s)) /\
    (forall i at_, In (i, at_) (dispatched s) -> exists t, In (i, t) (added s) /\ t <= at_ /\ at_ <= now s) /\
    (forall i at_, In (i, at_) (dispatched s) -> ~ In i (map fst (slots s))) /\
    map fst (atts s) = map fst (dispatched s).
Proof.
  intros cap s Hr. destruct (reach_inv cap s Hr) as (_ & [B1 B2 B3 B4] & _). split; [exact B3|]. split; [exact B1|]. split; [|exact B4].
  intros i a H. exact (proj1 (B2 i a H)).
Qed.
Print Assumptions C12_dispatched_once_not_early.

(* the entries in the wheel have distinct ids and each id was added with one time only *)
Theorem C12_wheel_well_formed :
  forall cap s, reach cap s ->
    NoDup (map fst (slots s)) /\ (forall i t, In (i, t) (slots s) -> In (i, t) (added s)) /\
    (forall i t t', In (i, t) (added s) -> In (i, t') (added s) -> t = t').
Proof. intros cap s Hr. destruct (reach_inv cap s Hr) as ([A1 A2 A3 A4 A5 A6 A7 A8] & _). auto. Qed.
Print Assumptions C12_wheel_well_formed.

(* shutdown: once the handshake is done the tick goroutine is gone, so nothing is dispatched any
   more; the stopped flag is set from the first step of Close on; and when Queue.Close has
   returned every attempt that was ever dispatched has finished *)
Theorem C12_shutdown_safe :
  forall cap s, reach cap s ->
    ((cl s = CHandshaken \/ cl s = CDoneClosed \/ cl s = CReturned) -> tk s = TGone) /\
    (cl s <> CNone -> stopped s = true) /\
    (cl s = CReturned -> forall i a, In (i, a) (atts s) -> a = AFinished).
Proof. intros cap s Hr. destruct (reach_inv cap s Hr) as (_ & _ & [C1 C2 C3 C4]). auto. Qed.
Print Assumptions C12_shutdown_safe.

(* a producer that passed the stopped check before the shutdown is released by close(done):
   after Close the release step is enabled for it *)
Theorem C12_add_released_after_close :
  forall cap s p i t, reach cap s -> prods s p = PPushed i t -> (cl s = CDoneClosed \/ cl s = CReturned) ->
    exists s', step s s' /\ prods s' p = PIdle.
Proof.
  intros cap s p i t Hr Hp Hc. destruct (reach_inv cap s Hr) as (_ & _ & [C1 C2 C3 C4]).
  eexists. split; [eapply s_add_release; [exact Hp|apply C3; exact Hc]|]. cbn. unfold upd. rewrite N.eqb_refl. reflexivity.
Qed.
Print Assumptions C12_add_released_after_close.

Example C12_example :
  exists s, reach 1 s /\ slots s = [(0, 1)] /\ prods s 5 = PPushed 0 1.
Proof.
  assert (H1 : reach 1 (wsp (st0 1) 0 [] false false TScan CNone (upd (fun _ => PIdle) 5 (PChecked 0 1)) 1 [] [] [] 0)).
  { eapply rS; [apply r0|]. apply (s_add_check (st0 1) 5 1); reflexivity. }
  eexists. split.
  - eapply rS; [exact H1|]. eapply (s_add_push _ 5 0 1). reflexivity.
  - split; reflexivity.
Qed.
