(* C20 - Configuration parsing never crashes and parsed trees round-trip. *)
From Maddy Require Import Lib.Base Cfg.Model Cfg.Lemmas.
Local Open Scope Z_scope.

(* For every rune sequence, every set of importable files, every environment and every Unicode
   classification: the reader does not crash (the model has an explicit Panic outcome for the
   out-of-range accesses of the Go code). *)
Theorem C20_no_panic :
  forall is_letter_u is_digit_u is_space_u files env inp,
    read is_space_u is_letter_u is_digit_u files env inp <> PPanic.
Proof. exact read_np. Qed.
Print Assumptions C20_no_panic.

(* Every accepted tree, at every depth: no macro or snippet declaration is left and every
   directive name is well-formed (environment expansion cannot damage a name). *)
Theorem C20_post_names_and_declarations :
  forall is_space_u is_letter_u is_digit_u files env inp l,
    read is_space_u is_letter_u is_digit_u files env inp = POk l ->
    forallb (goodb is_letter_u is_digit_u) l = true.
Proof. exact read_good. Qed.
Print Assumptions C20_post_names_and_declarations.

(* the token-level parser alone (any fuel): same guarantee, plus stored snippets are clean *)
Theorem C20_parser_post :
  forall is_letter_u is_digit_u fuel c l c',
    read_nodes is_letter_u is_digit_u fuel c = POk (l, c') ->
    snips_good is_letter_u is_digit_u (snips c) = true ->
    forallb (goodb is_letter_u is_digit_u) l = true /\
    snips_good is_letter_u is_digit_u (snips c') = true.
Proof. intros a b fuel. exact (proj1 (parser_good a b fuel)). Qed.
Print Assumptions C20_parser_post.

Theorem C20_env_keeps_valid_names :
  forall is_letter_u is_digit_u env s,
    valid_name is_letter_u is_digit_u s = true -> env_str env s = s.
Proof. intros a b. exact (env_str_valid (fun _ => false) a b (fun _ => None)). Qed.
Print Assumptions C20_env_keeps_valid_names.

Example C20_nonvacuous :
  read (fun _ => false) (fun _ => false) (fun _ => false) (fun _ => None) []
       [97; 32; 98; 32; 123; 10; 99; 10; 125; 10]%N =
  POk [Node [97%N] [[98%N]] (Some [Node [99%N] [] None false false 2]) false false 1].
Proof. vm_compute. reflexivity. Qed.

(* round trip on a concrete expressible tree (the general statement is checked on the
   implementation and the model by the correspondence run; see DESIGN.md) *)
Example C20_roundtrip_example :
  let t := [Node [97%N] [[98%N; 32%N; 34%N]; []] (Some [Node [99%N] [[123%N; 120%N]] None false false 0;
                                                          Node [100%N] [] (Some []) false false 0]) false false 0] in
  forallb expressible t = true /\
  match read (fun _ => false) (fun _ => false) (fun _ => false) (fun _ => None) [] (print_nodes t) with
  | POk t' => list_eqb node_eqb t t' = true
  | _ => False
  end.
Proof. vm_compute. auto. Qed.
