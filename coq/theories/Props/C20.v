(* C20 - Configuration parsing never crashes and parsed trees round-trip. *)
From Maddy Require Import Lib.Base Cfg.Model Cfg.Lemmas.
Local Open Scope Z_scope.

(* For every rune sequence, every set of importable files, every environment and every Unicode
   classification: the reader does not crash (the model has an explicit Panic outcome for the
   out-of-range accesses of the Go code). *)
Theorem C20_no_panic :
  forall is_letter_u is_digit_u is_space_u files env inp,
    read is_space_u is_letter_u is_digit_u files env inp <> PPanic.
Proof. exact read_np. Qed.
Print Assumptions C20_no_panic.

(* Every accepted tree, at every depth: no macro or snippet declaration is left and every
   directive name is well-formed (environment expansion cannot damage a name). *)
Theorem C20_post_names_and_declarations :
  forall is_space_u is_letter_u is_digit_u files env inp l,
    read is_space_u is_letter_u is_digit_u files env inp = POk l ->
    forallb (goodb is_letter_u is_digit_u) l = true.
Proof. exact read_good. Qed.
Print Assumptions C20_post_names_and_declarations.

(* the token-level parser alone (any fuel): same guarantee, plus stored snippets are clean *)
Theorem C20_parser_post :
  forall is_letter_u is_digit_u fuel c l c',
    read_nodes is_letter_u is_digit_u fuel c = POk (l, c') ->
    snips_good is_letter_u is_digit_u (snips c) = true ->
    forallb (goodb is_letter_u is_digit_u) l = true /\
    snips_good is_letter_u is_digit_u (snips c') = true.
Proof. intros a b fuel. exact (proj1 (parser_good a b fuel)). Qed.
Print Assumptions C20_parser_post.

Theorem C20_env_keeps_valid_names :
  forall is_letter_u is_digit_u env s,
    valid_name is_letter_u is_digit_u s = true -> env_str env s = s.
Proof. intros a b. exact (env_str_valid (fun _ => false) a b (fun _ => None)). Qed.
Print Assumptions C20_env_keeps_valid_names.

Example C20_nonvacuous :
  read (fun _ => false) (fun _ => false) (fun _ => false) (fun _ => None) []
       [97; 32; 98; 32; 123; 10; 99; 10; 125; 10]%N =
  POk [Node [97%N] [[98%N]] (Some [Node [99%N] [] None false false 2]) false false 1].
Proof. vm_compute. reflexivity. Qed.

(* Printing a tree in canonical syntax and reading it again yields the same tree (up to the line
   numbers, which become those of the printed text: [relabs 1 t]).  For every list of trees whose
   directive names are well formed, that are not declarations or import directives, whose
   arguments the quoted syntax can carry and no later expansion touches, and whose blocks nest at
   most 256 deep; for every set of importable files and every environment.  The two hypotheses
   are facts about the Unicode tables behind unicode.IsSpace / IsLetter / IsDigit (checked against
   Go's tables by the harness on every run): no letter or digit is a space, U+FEFF is neither. *)
Require Maddy.Cfg.RoundTrip Maddy.Cfg.RoundTripParse Maddy.Cfg.RoundTripTop.
Theorem C20_print_read_roundtrip :
  forall is_space_u is_letter_u is_digit_u files env,
    (forall c, (128 <= c)%N -> (is_letter_u c || is_digit_u c)%bool = true -> is_space_u c = false) ->
    (is_letter_u 65279%N = false /\ is_digit_u 65279%N = false) ->
    forall t,
      forallb (RoundTripTop.rt_ok is_letter_u is_digit_u) t = true -> RoundTripParse.deps t <= 256 ->
      read is_space_u is_letter_u is_digit_u files env (print_nodes t) = POk (RoundTripParse.relabs 1 t)
      /\ list_eqb node_eqb t (RoundTripParse.relabs 1 t) = true.
Proof. exact RoundTripTop.print_read_roundtrip. Qed.
Print Assumptions C20_print_read_roundtrip.

(* the trees the property names - accepted by the reader (C20_post_names_and_declarations) and
   expressible in the quoted syntax - are among them *)
Theorem C20_accepted_expressible_trees_roundtrip :
  forall is_letter_u is_digit_u n,
    goodb is_letter_u is_digit_u n = true -> expressible n = true ->
    RoundTripTop.rt_ok is_letter_u is_digit_u n = true.
Proof. exact RoundTripTop.good_expressible_rt_ok. Qed.
Print Assumptions C20_accepted_expressible_trees_roundtrip.

(* the premises of the round-trip theorem are satisfiable: a concrete tree *)
Example C20_roundtrip_example :
  let t := [Node [97%N] [[98%N; 32%N; 34%N]; []] (Some [Node [99%N] [[123%N; 120%N]] None false false 0;
                                                          Node [100%N] [] (Some []) false false 0]) false false 0] in
  forallb expressible t = true /\
  forallb (RoundTripTop.rt_ok (fun _ => false) (fun _ => false)) t = true /\ RoundTripParse.deps t <= 256 /\
  match read (fun _ => false) (fun _ => false) (fun _ => false) (fun _ => None) [] (print_nodes t) with
  | POk t' => list_eqb node_eqb t t' = true
  | _ => False
  end.
Proof. vm_compute. repeat split; auto; discriminate. Qed.
