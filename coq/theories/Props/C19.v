(* C19: the statements.  This file contains nothing but the property theorems. *)
From Maddy Require Import Lib.Base Conc.Pool Conc.PoolLemmas.
Local Open Scope N_scope.

(* In every state reachable by any interleaving of any number of actors doing Get (with its
   unlocked receive loop and the drain after an expired bucket), Return (with stale-key collection),
   owner-side Close, CleanUp and shutdown, for any capacity, lifetime and usability predicates:
   a connection an actor holds is held by that actor only and has never been closed; no connection
   is closed twice; the pending connection of a Return in progress is still the returner's. *)
Theorem C19_exclusive_alive_closed_once :
  forall max_keys expired stale good s,
    reach max_keys expired stale good s ->
    (forall a t, acts s a = AHold t -> loc s t = PHeld a /\ closes s t = 0%nat) /\
    (forall t, (closes s t <= 1)%nat) /\
    (forall a a' t, acts s a = AHold t -> acts s a' = AHold t -> a = a').
Proof.
  intros mk ex stl gd s Hr. destruct (reach_inv mk ex stl gd s Hr) as [[Ho Hh Hc Hf] _]. split; [|split].
  - intros a t H. split; [exact (Hh a t H)|]. apply (proj2 (Ho t)). rewrite (Hh a t H). discriminate.
  - intro t. exact (proj1 (Ho t)).
  - intros a a' t H1 H2. apply Hh in H1. apply Hh in H2. congruence.
Qed.
Print Assumptions C19_exclusive_alive_closed_once.

(* no interleaving sends on or closes a closed channel (the two ways this code could panic): the
   channels in the key table are exactly the open ones it may send on, each closed under the lock
   when it leaves the table *)
Theorem C19_no_panic :
  forall max_keys expired stale good s,
    reach max_keys expired stale good s ->
    panicked s = false /\
    (forall l k c, keys s = Some l -> In (k, c) l -> ch_open s c = true) /\
    (forall l, keys s = Some l -> NoDup (map snd l)).
Proof.
  intros mk ex stl gd s Hr. destruct (reach_inv mk ex stl gd s Hr) as [_ [Hp Hk Hn]]. split; [exact Hp|]. split; [|exact Hn].
  intros l k c Hl Hin. exact (proj1 (Hk l k c Hl Hin)).
Qed.
Print Assumptions C19_no_panic.

(* after shutdown a Get that starts finds no bucket: the only enabled start of a Get is the one
   that returns nothing *)
Theorem C19_no_bucket_after_shutdown :
  forall s, keys s = None -> forall k, (match keys s with Some l => alookup N.eqb k l | None => None end) = None.
Proof. intros s H k. rewrite H. reflexivity. Qed.
Print Assumptions C19_no_bucket_after_shutdown.

(* Sequential use (the executable model the implementation is compared with): whatever the sequence
   of gets, returns - of connections the caller holds or of new ones -, clean-ups and shutdown, every
   connection is at one place at a time: pooled, closed or held; so none is closed twice, none is
   handed out after it was closed, none is pooled twice. *)
Require Maddy.Conc.PoolSeq Maddy.Conc.PoolSeqLemmas.
Theorem C19_sequential_one_place_at_a_time :
  forall cf good ops s held,
    PoolSeqLemmas.wrun cf good PoolSeq.pst0 [] ops = Some (s, held) ->
    NoDup (PoolSeqLemmas.pooled s ++ PoolSeq.p_closed s ++ held).
Proof. exact PoolSeqLemmas.seq_one_place_at_a_time. Qed.
Print Assumptions C19_sequential_one_place_at_a_time.

(* the same in the form the monitor evaluates on sequential histories of the implementation *)
Theorem C19_sequential_histories_pass_clause_3 :
  forall cf good ops s held,
    PoolSeqLemmas.wrun cf good PoolSeq.pst0 [] ops = Some (s, held) ->
    forallb (fun t => Nat.leb (PoolCorr.count_n t (PoolSeq.p_closed s)) 1) (PoolSeq.p_closed s) = true.
Proof. exact PoolSeqLemmas.seq_histories_pass_clause_3. Qed.
Print Assumptions C19_sequential_histories_pass_clause_3.

(* Get hands out only connections that are usable and within their idle lifetime: over every
   sequence of operations, from every state *)
Theorem C19_sequential_hands_out_only_good :
  forall cf good ops s s' rs t,
    PoolSeq.prun cf good s ops = (s', rs) -> In (PoolSeq.RConn t) rs -> good t = true.
Proof. exact PoolSeqLemmas.seq_hands_out_only_good. Qed.
Print Assumptions C19_sequential_hands_out_only_good.

(* ... in the form of the monitor's clause 7 *)
Theorem C19_sequential_histories_pass_clause_7 :
  forall cf bad ops s rs,
    PoolSeq.prun cf (fun t => negb (mem_b N.eqb t bad)) PoolSeq.pst0 ops = (s, rs) ->
    existsb (fun r => match r with PoolSeq.RConn t => mem_b N.eqb t bad | _ => false end) rs = false.
Proof. exact PoolSeqLemmas.seq_histories_pass_clause_7. Qed.
Print Assumptions C19_sequential_histories_pass_clause_7.

(* non-vacuity: a reachable state in which a pooled connection has been handed to a second actor *)
Example C19_example :
  exists s, reach 2 (fun _ => false) (fun _ => false) (fun _ => true) s /\ acts s 1 = AHold 0 /\ loc s 0 = PHeld 1.
Proof.
  eexists. split.
  - eapply rS. eapply rS. eapply rS. eapply rS. eapply rS. eapply rS. apply r0.
    + apply (s_new _ _ _ _ _ 0). reflexivity.
    + eapply (s_ret_gc _ _ _ _ _ 0 0 7); reflexivity.
    + eapply (s_ret_finish _ _ _ _ _ 0 7 0); reflexivity.
    + eapply (s_get_chan _ _ _ _ _ 1 7); reflexivity.
    + eapply (s_recv_good _ _ _ _ _ 1 0 0); reflexivity.
    + eapply (s_get_none _ _ _ _ _ 2 9); reflexivity.
  - split; reflexivity.
Qed.
