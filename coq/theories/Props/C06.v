(* C06: the statements.  This file contains nothing but the property theorems. *)
From Maddy Require Pipeline.ChecksCorr Pipeline.ChecksOnce Pipeline.ChecksSeen.
From Maddy Require Import Lib.Base Pipeline.Checks Pipeline.ChecksLemmas.
From Coq Require Import Permutation.
Local Open Scope N_scope.

(* Verdicts are enforced: a command that is accepted made only calls whose verdict was not
   'reject', for every placement of checks, every script and every history before it - MAIL, RCPT
   (including the replay of earlier stages for checks first met there) and the body stage (where
   acceptance is the only way any target receives the message). *)
Theorem C06_accepted_command_had_no_reject :
  forall script cfg,
    (forall s, start script cfg = (s, true) -> ext script runner0 (s_rn s)) /\
    (forall s r b s', add_rcpt script cfg s r b = (s', true) -> ext script (s_rn s) (s_rn s')) /\
    (forall s rn d, body script cfg s = (rn, Some d) -> ext script (s_rn s) rn).
Proof.
  intros script cfg. split; [exact (start_accept script cfg)|]. split; [exact (add_rcpt_accept script cfg)|].
  intros s rn d H. exact (proj1 (body_accept script cfg s rn d H)).
Qed.
Print Assumptions C06_accepted_command_had_no_reject.

(* a check that rejects a stage it has not seen yet refuses the command, whichever other checks
   run beside it *)
Theorem C06_reject_refuses :
  forall script sts stg rn c s,
    NoDup (map snd sts) -> In (c, s) sts -> skipped rn s stg = false -> script c stg = VReject ->
    snd (batch script sts stg rn) = true.
Proof. exact batch_rejects. Qed.
Print Assumptions C06_reject_refuses.

(* Quarantine: when the body stage is accepted every target sees one and the same flag; it is
   set when the DMARC policy quarantines, and ([ext]) whenever a check quarantined in an accepted
   command at any earlier point of the message; a DMARC reject policy refuses the message. *)
Theorem C06_quarantine_reaches_every_target :
  forall script cfg s rn d,
    body script cfg s = (rn, Some d) ->
    ext script (s_rn s) rn /\ dmarc cfg <> 2 /\
    d = map (fun x => (fst x, snd x, r_quar rn || (dmarc cfg =? 1))) (s_deliv s).
Proof. exact body_accept. Qed.
Print Assumptions C06_quarantine_reaches_every_target.

(* an 'ignore' verdict (a reason without reject or quarantine) changes nothing: the whole
   outcome, call log included, is the one of the script with those verdicts removed *)
Theorem C06_ignore_changes_nothing :
  forall script cfg l,
    run_message (fun c st => match script c st with VIgnore => VNone | v => v end) cfg l = run_message script cfg l.
Proof.
  intros script cfg l. apply run_message_same; intros c st; destruct (script c st); reflexivity.
Qed.
Print Assumptions C06_ignore_changes_nothing.

(* the verdict of a stage - command refused or not, message quarantined or not - is the same
   for every order in which the concurrently running checks complete *)
Theorem C06_order_independent :
  forall script sts sts' stg rn,
    Permutation sts sts' -> NoDup (map snd sts) ->
    snd (batch script sts stg rn) = snd (batch script sts' stg rn) /\
    r_quar (fst (batch script sts stg rn)) = r_quar (fst (batch script sts' stg rn)).
Proof. exact batch_order_independent. Qed.
Print Assumptions C06_order_independent.

(* No check state is shown the same stage of a message twice - the connection, the sender, a given
   recipient, the body - for every script of verdicts, every configuration of global, per-sender and
   per-block checks and every list of recipients; stated on the call log of the whole message. *)
Require Maddy.Pipeline.ChecksOnce.
Theorem C06_no_state_sees_a_stage_twice :
  forall script cfg l,
    NoDup (map ChecksOnce.key (o_log (run_message script cfg l))).
Proof. exact ChecksOnce.no_state_sees_a_stage_twice. Qed.
Print Assumptions C06_no_state_sees_a_stage_twice.

(* the same in the form the monitor evaluates on the implementation's call log (clause 6) *)
Theorem C06_model_outcomes_pass_clause_6 :
  forall script cfg l,
    let o := run_message script cfg l in
    forallb (fun cl : call => Nat.leb (ChecksCorr.calls_of o (snd (fst cl)) (snd cl)) 1) (o_log o) = true.
Proof. exact ChecksOnce.model_outcomes_pass_clause_6. Qed.
Print Assumptions C06_model_outcomes_pass_clause_6.

(* non-vacuity *)
(* Every stage is seen: for every script of verdicts, every configuration and every recipient
   list, if the message is delivered then every applicable check - global, per-sender, and of every
   block an accepted recipient was routed to - has one state whose call log holds the connection,
   the sender, every accepted recipient in the check's scope and the body. *)
Theorem C06_delivered_message_seen_by_every_applicable_check :
  forall script cfg l d,
    let o := run_message script cfg l in
    o_body o = Some (Some d) ->
    forall c, In c (ChecksCorr.applicable cfg l o) ->
    exists s, In (c, s, SConn) (o_log o) /\ In (s, SSender) (map ChecksOnce.key (o_log o)) /\
              In (s, SBody) (map ChecksOnce.key (o_log o)) /\
              forall r, In r (ChecksCorr.in_scope cfg l o c) -> In (s, SRcpt r) (map ChecksOnce.key (o_log o)).
Proof. exact ChecksSeen.delivered_seen. Qed.
Print Assumptions C06_delivered_message_seen_by_every_applicable_check.

(* ... and with "no state sees a stage twice" every one of these counts is exactly one: the
   model's outcomes pass clause 7 of the monitor *)
Theorem C06_model_outcomes_pass_clause_7 :
  forall script cfg l d,
    let o := run_message script cfg l in
    o_body o = Some (Some d) ->
    forallb (fun c =>
       existsb (fun s => Nat.eqb (ChecksCorr.calls_of o s SConn) 1 && Nat.eqb (ChecksCorr.calls_of o s SSender) 1
                         && Nat.eqb (ChecksCorr.calls_of o s SBody) 1
                         && forallb (fun r => Nat.eqb (ChecksCorr.calls_of o s (SRcpt r)) 1) (ChecksCorr.in_scope cfg l o c))
               (ChecksCorr.states_of o c)) (ChecksCorr.applicable cfg l o) = true.
Proof. exact ChecksSeen.model_outcomes_pass_clause_7. Qed.
Print Assumptions C06_model_outcomes_pass_clause_7.

Example C06_example :
  let script := fun (c : N) (st : stage) => match c, st with 1, SBody => VQuar | 2, SRcpt 7 => VReject | _, _ => VNone end in
  let cfg := {| g_checks := [1]; s_checks := []; blocks := [([2], 5); ([1; 3], 6)]; dmarc := 0; mod_fail := [] |} in
  let o := run_message script cfg [(7, 0); (8, 1); (9, 0)] in
  o_start o = true /\ o_rcpts o = [false; true; false] /\
  o_body o = Some (Some [(6, [8], true)]).
Proof. vm_compute. repeat split. Qed.
