(* C08: the statements.  This file contains nothing but the property theorems. *)
From Maddy Require Import Lib.Base Wire.Header Wire.HeaderLemmas Wire.Dot Wire.DotLemmas Dkim.Model Dkim.Lemmas.
Local Open Scope N_scope.

(* Transport is the identity on the signed bytes.  (i) the spool: printing the header and reading
   it back gives byte-identical raw fields, whatever follows (this is C10_header_parse_print);
   (ii) SMTP: for every message made of CRLF-terminated lines without bare CR or LF - header
   lines, the empty line, body lines incl. lines starting with dots, empty lines at the end, an empty
   body - what the next hop's DATA reader yields is what the client's dot-writer was given.
   Hence every function of the bytes (canonicalization, hashes, the verifier) gives the same result
   at the next hop as at signing time. *)
Theorem C08_transport_identity :
  (forall fs body, forallb wf_raw fs = true ->
     read_header (write_header (map rf_bytes fs) ++ body) = HOk (map rf_bytes fs) body) /\
  (forall ls, ls <> [] -> forallb clean_line ls = true -> dot_decode (dot_encode (of_lines ls)) = Some (of_lines ls)).
Proof. split; [exact header_parse_print|exact dot_roundtrip]. Qed.
Print Assumptions C08_transport_identity.

(* fieldsToSign: an over-signed name is listed once more than it occurs, a name that is only
   signed as often as it occurs, any other name not at all - for every header and configuration *)
Theorem C08_fields_to_sign_counts :
  forall over sign h k,
    occ k (fields_to_sign over sign h) =
      if mem_b str_eqb k over then S (count_key k h)
      else if mem_b str_eqb k sign then count_key k h else 0%nat.
Proof. exact fields_to_sign_counts. Qed.
Print Assumptions C08_fields_to_sign_counts.

(* every instance of a configured field is part of the verifier's hash input: altering one
   changes what is hashed *)
Theorem C08_every_signed_instance_is_hashed :
  forall over sign h f,
    In f h -> mem_b str_eqb (fst f) over || mem_b str_eqb (fst f) sign = true ->
    In (Some f) (hash_input (fields_to_sign over sign h) h).
Proof.
  intros over sign h f Hin Hc. unfold hash_input. apply select_all; [apply in_rev in Hin; exact Hin|].
  rewrite count_key_rev, fields_to_sign_counts.
  destruct (mem_b str_eqb (fst f) over); [lia|]. cbn in Hc. rewrite Hc. lia.
Qed.
Print Assumptions C08_every_signed_instance_is_hashed.

(* adding an instance of an over-signed field at the next hop changes the hash input *)
Theorem C08_oversign_detects_addition :
  forall over sign h k v,
    mem_b str_eqb k over = true ->
    hash_input (fields_to_sign over sign h) ((k, v) :: h) <> hash_input (fields_to_sign over sign h) h.
Proof.
  intros over sign h k v Hk. apply (hash_input_differs _ _ _ k).
  - rewrite fields_to_sign_counts, Hk. unfold count_key. cbn. rewrite str_eqb_refl. cbn. lia.
  - rewrite fields_to_sign_counts, Hk. lia.
  - unfold count_key. cbn. rewrite str_eqb_refl. cbn. lia.
Qed.
Print Assumptions C08_oversign_detects_addition.

(* removing an instance of a configured field changes the hash input *)
Theorem C08_removal_detected :
  forall over sign h1 h2 k v,
    mem_b str_eqb k over || mem_b str_eqb k sign = true ->
    hash_input (fields_to_sign over sign (h1 ++ (k, v) :: h2)) (h1 ++ h2)
    <> hash_input (fields_to_sign over sign (h1 ++ (k, v) :: h2)) (h1 ++ (k, v) :: h2).
Proof.
  intros over sign h1 h2 k v Hk.
  assert (C : count_key k (h1 ++ (k, v) :: h2) = S (count_key k (h1 ++ h2))).
  { unfold count_key. rewrite !filter_app, !app_length. cbn. rewrite str_eqb_refl. cbn. lia. }
  apply (hash_input_differs _ _ _ k); rewrite ?fields_to_sign_counts.
  - destruct (mem_b str_eqb k over); [lia|]. cbn in Hk. rewrite Hk. lia.
  - destruct (mem_b str_eqb k over); [lia|]. cbn in Hk. rewrite Hk. lia.
  - lia.
Qed.
Print Assumptions C08_removal_detected.

Example C08_example :
  let h := [([115], [1]); ([116], [2]); ([115], [3])] in
  fields_to_sign [[115]] [[116]; [120]] h = [[115]; [115]; [115]; [116]] /\
  hash_input (fields_to_sign [[115]] [[116]; [120]] h) h = [Some ([115], [3]); Some ([115], [1]); None; Some ([116], [2])] /\
  dot_decode (dot_encode (of_lines [[46; 97]; []; [46]])) = Some (of_lines [[46; 97]; []; [46]]).
Proof. vm_compute. repeat split. Qed.
