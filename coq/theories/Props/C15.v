(* C15: the statements.  This file contains nothing but the property theorems. *)
From Maddy Require Auth.NormCorr.
From Maddy Require Import Lib.Base Auth.Authz Auth.AuthzLemmas.
Local Open Scope N_scope.

(* With the three actions set to reject (the default) a message that neither the envelope check
   nor the header check refuses comes from an authenticated client, its envelope sender is an
   address the user is entitled to, it has exactly one From field with exactly one address, and
   that address - or the address of its only Sender field - is one the user is entitled to.
   Normalizers, tables and parsers are arbitrary functions. *)
Theorem C15_accept_implies_entitled :
  forall cfg from_norm auth_norm prepare user_to_email split_domain parse_list parse_addr auth mail_from h,
    all_reject cfg -> check_header cfg = true ->
    r_reject (check_sender cfg from_norm auth_norm prepare user_to_email split_domain true auth mail_from) = false ->
    r_reject (check_body cfg from_norm auth_norm prepare user_to_email split_domain parse_list parse_addr true auth h) = false ->
    auth <> [] /\
    entitled from_norm auth_norm prepare user_to_email split_domain auth mail_from /\
    exists fv fa, values h K_FROM = [fv] /\ parse_list fv = Some [fa] /\
      (entitled from_norm auth_norm prepare user_to_email split_domain auth fa \/
       exists sv sa, values h K_SENDER = [sv] /\ parse_addr sv = Some sa /\
                     entitled from_norm auth_norm prepare user_to_email split_domain auth sa).
Proof.
  intros cfg fn an pr ue sd pl pa auth mf h Hall Hch Hs Hb.
  assert (He := sender_accept cfg fn an pr ue sd true auth mf Hall Hs eq_refl).
  split; [exact (proj1 He)|]. split; [exact He|].
  exact (body_accept cfg fn an pr ue sd pl pa auth h Hall Hch Hb).
Qed.
Print Assumptions C15_accept_implies_entitled.

(* consequently every From field of an accepted message is that one field: no author address
   escapes the check in a repeated field *)
Theorem C15_every_from_field_checked :
  forall cfg from_norm auth_norm prepare user_to_email split_domain parse_list parse_addr auth h,
    all_reject cfg -> check_header cfg = true ->
    r_reject (check_body cfg from_norm auth_norm prepare user_to_email split_domain parse_list parse_addr true auth h) = false ->
    exists fv, forall v, In (K_FROM, v) h -> v = fv.
Proof.
  intros cfg fn an pr ue sd pl pa auth h Hall Hch Hb.
  destruct (body_accept cfg fn an pr ue sd pl pa auth h Hall Hch Hb) as (fv & fa & Hv & _).
  exists fv. exact (values_single h K_FROM fv Hv).
Qed.
Print Assumptions C15_every_from_field_checked.

Theorem C15_unauth_refused :
  forall cfg from_norm auth_norm prepare user_to_email split_domain email,
    a_reject (unauth_action cfg) = true ->
    r_reject (authz_sender cfg from_norm auth_norm prepare user_to_email split_domain [] email) = true /\
    r_reason (authz_sender cfg from_norm auth_norm prepare user_to_email split_domain [] email) = 530570.
Proof. exact unauth_refused. Qed.
Print Assumptions C15_unauth_refused.

(* the decision depends on an address and on a user name only through their normal forms: all
   spellings with the same normal form are treated alike *)
Theorem C15_spelling_invariant :
  forall cfg from_norm auth_norm prepare user_to_email split_domain auth auth' e e',
    from_norm e = from_norm e' -> auth <> [] -> auth' <> [] -> auth_norm auth = auth_norm auth' ->
    authz_sender cfg from_norm auth_norm prepare user_to_email split_domain auth e =
    authz_sender cfg from_norm auth_norm prepare user_to_email split_domain auth' e'.
Proof.
  intros cfg fn an pr ue sd a a' e e' He Ha Ha' Hn.
  rewrite (spelling_invariant cfg fn an pr ue sd a e e' He).
  apply spelling_invariant_auth; assumption.
Qed.
Print Assumptions C15_spelling_invariant.

(* non-vacuity: a configuration and a message that are accepted, and one that is not *)
Example C15_example :
  let rej := {| a_reject := true; a_quar := false |} in
  let cfg := {| check_header := true; unauth_action := rej; no_match_action := rej; err_action := rej |} in
  let idn := fun s : str => Some s in
  let u2e := fun u : str => Some [u] in
  let split := fun a : str => Some [100] in
  let pl := fun v : str => Some [v] in
  r_reject (check_body cfg idn idn (fun _ => PMiss) u2e split pl idn true [97] [(K_FROM, [97])]) = false /\
  r_reject (check_body cfg idn idn (fun _ => PMiss) u2e split pl idn true [97] [(K_FROM, [98])]) = true /\
  r_reject (check_body cfg idn idn (fun _ => PMiss) u2e split pl idn true [97] [(K_FROM, [97]); (K_FROM, [98])]) = true /\
  r_reject (check_body cfg idn idn (fun _ => PMiss) u2e split pl idn true [97] [(K_FROM, [98]); (K_SENDER, [97])]) = false.
Proof. vm_compute. repeat split. Qed.

(* the normalisation settings: a function that meets the contract of its setting name (noop: the
   string itself; casefold: the string lower-cased character by character) gives equal results
   only for strings the contract identifies - so the comparison in AuthorizeEmailUse cannot take
   an address that is not the user's for one that is *)
Theorem C15_normalizer_contract_separates :
  forall c, NormCorr.agrees c = true -> NormCorr.monitor c = [].
Proof. exact NormCorr.contract_separates. Qed.
Print Assumptions C15_normalizer_contract_separates.
