(* C16 - Error replies are coherent: code classes agree and match retry behaviour.
   Only statements, each closed by [exact <lemma>], with Print Assumptions. *)
From Maddy Require Err.RemoteCorr.
From Maddy Require Import Lib.Base Err.Model Err.Lemmas.
Local Open Scope Z_scope.

(* Endpoint: every reply built from a well-annotated error of any depth carries a basic code
   of class 4 or 5 and an enhanced code of the same class (after go-smtp's X.0.0 fill-in). *)
Theorem C16_endpoint_class_agree :
  forall msgid mangle e, wa e = true -> coherent (on_wire (wrap_err msgid mangle e)) = true.
Proof. exact wrap_err_coherent. Qed.
Print Assumptions C16_endpoint_class_agree.

(* Endpoint: the reply is 4yz exactly when the error is temporary (outside the load-shedding
   branch, which always answers 451 4.4.5). *)
Theorem C16_endpoint_class_matches_temporary :
  forall msgid mangle e, wa e = true -> has_deadline e = false ->
    Z.eqb (cls (r_code (wrap_err msgid mangle e))) 4 = is_temp e.
Proof. exact wrap_err_class_temp. Qed.
Print Assumptions C16_endpoint_class_matches_temporary.

Theorem C16_endpoint_deadline :
  forall msgid mangle e, has_deadline e = true ->
    wrap_err msgid mangle e =
      {| r_code := 451; r_ench := {| e0 := 4; e1 := 4; e2 := 5 |}; r_msg := highload_msg |}.
Proof. exact wrap_err_deadline. Qed.
Print Assumptions C16_endpoint_deadline.

(* Queue: what is stored per recipient (and copied into failure reports) is coherent, and its
   class is 4 exactly when the queue retries the recipient. *)
Theorem C16_queue_class_agree :
  forall e, wa e = true -> coherent (to_smtp_err e) = true.
Proof. exact to_smtp_err_coherent. Qed.
Print Assumptions C16_queue_class_agree.

(* ... and always carries a status class, so a failure report can be generated from it (C18) *)
Theorem C16_queue_error_has_status :
  forall e, wa e = true -> Z.eqb (e0 (r_ench (to_smtp_err e))) 0 = false.
Proof. exact to_smtp_err_has_status. Qed.
Print Assumptions C16_queue_error_has_status.

Theorem C16_queue_class_matches_retry :
  forall e, wa e = true -> Z.eqb (cls (r_code (to_smtp_err e))) 4 = is_temp_or_unspec e.
Proof. exact to_smtp_err_class_retry. Qed.
Print Assumptions C16_queue_class_matches_retry.

(* No SMTP annotation anywhere in the chain: generic text, nothing of the error leaks. *)
Theorem C16_generic_text :
  forall mangle e, wa e = true -> has_deadline e = false -> annot e = None ->
    (forall c x m, e <> EGoSmtp c x m) ->
    r_msg (wrap_err [] mangle e) = (if mangle then mangle_msg generic_msg else generic_msg).
Proof. exact wrap_err_generic. Qed.
Print Assumptions C16_generic_text.

(* Clients without SMTPUTF8: every code point of the reply text is below U+0080 - for every
   error value whatsoever, well-annotated or not. *)
Theorem C16_ascii_when_not_utf8 :
  forall msgid e, ascii_only (r_msg (wrap_err msgid true e)) = true.
Proof. exact wrap_err_ascii. Qed.
Print Assumptions C16_ascii_when_not_utf8.

(* Helper-computed codes (SMTPCode / SMTPEnchCode) are coherent for every error. *)
Theorem C16_helper_coherent :
  forall e t p en, lit_coherent (LHelper t p en) = true ->
    coherent {| r_code := smtp_code e t p; r_ench := smtp_ench_code e en; r_msg := [] |} = true.
Proof. exact helper_coherent. Qed.
Print Assumptions C16_helper_coherent.

Theorem C16_literal_is_well_annotated :
  forall c en, lit_coherent (LConst c en) = true -> Z.eqb (cls c) 2 = false -> ench_ok c en = true.
Proof. exact lit_const_ench_ok. Qed.
Print Assumptions C16_literal_is_well_annotated.

(* `reject` directive with the enhanced code left to maddy: the check-action parser derives
   the class from the basic code ... *)
Theorem C16_reject_action_default_coherent :
  forall code c e, parse_reject_action code None = Some (c, e) ->
    coherent {| r_code := c; r_ench := e; r_msg := [] |} = true.
Proof. exact reject_action_default_coherent. Qed.
Print Assumptions C16_reject_action_default_coherent.

(* ... the pipeline's own parser does not (known finding, pinned by an existing test): the full
   statement is refuted by `reject 451`, and holds for 5yz codes. *)
Theorem C16_reject_pipeline_default_refuted :
  exists code c e, parse_reject_pipeline (Some code) None = Some (c, e) /\
                   coherent {| r_code := c; r_ench := e; r_msg := [] |} = false.
Proof. exact reject_pipeline_default_refuted. Qed.
Print Assumptions C16_reject_pipeline_default_refuted.

Theorem C16_reject_pipeline_default_partial :
  forall code c e, parse_reject_pipeline code None = Some (c, e) -> Z.eqb (cls c) 5 = true ->
    coherent {| r_code := c; r_ench := e; r_msg := [] |} = true.
Proof. exact reject_pipeline_default_partial. Qed.
Print Assumptions C16_reject_pipeline_default_partial.

(* Over histories: whenever the queue records, after each failing attempt, the status the model
   computes for that attempt's error and decides as the model does (retry iff temporary or
   unclassified and tries are left), every recorded status is coherent and its class agrees with the
   decision taken - 4yz when the recipient was retried, 5yz when it was given up before its last
   permitted try.  For every sequence of well-annotated errors and every max_tries. *)
Require Maddy.Err.QueueCorr Maddy.Err.QueueLemmas.
Theorem C16_queue_histories_class_agrees_with_decision :
  forall mt l i,
    forallb (fun a : QueueCorr.attempt => wa (fst (fst a))) l = true ->
    QueueCorr.attempts_agree mt i l = true -> QueueCorr.mon_attempts mt i l = [].
Proof. exact QueueLemmas.model_history_satisfies. Qed.
Print Assumptions C16_queue_histories_class_agrees_with_decision.

(* non-vacuity: a deep, non-trivial error satisfies the hypotheses *)
Example C16_nonvacuous :
  let e := EFields [(KOther 1, FStr [])]
             (ETemp true (EWrapW (ESmtp 451 {| e0 := 4; e1 := 7; e2 := 1 |} [120%N] []
                (Some (ENet false))))) in
  wa e = true /\ has_deadline e = false /\ is_temp e = true /\
  r_code (wrap_err [] true e) = 451.
Proof. vm_compute. auto. Qed.
Example C16_nonvacuous_unannotated :
  let e := EFields [(KOther 1, FStr [])] (EWrapW (ENet true)) in
  wa e = true /\ annot e = None /\ has_deadline e = false.
Proof. vm_compute. auto. Qed.

(* the remote target's "no usable MX" failure: whatever the candidates did, the reply built from
   the candidate tried last is coherent and its class is the retry decision *)
Theorem C16_no_usable_mx_coherent :
  forall fails,
    let r := RemoteCorr.no_usable_mx fails in
    coherent {| r_code := fst r; r_ench := snd r; r_msg := [] |} = true /\
    Z.eqb (cls (fst r)) 4 = last fails false.
Proof. exact RemoteCorr.no_usable_mx_coherent. Qed.
Print Assumptions C16_no_usable_mx_coherent.

(* ... and so is the reply for a failing MX lookup, temporary or not *)
Theorem C16_mx_lookup_error_coherent :
  forall t,
    let r := RemoteCorr.mx_lookup_error t in
    coherent {| r_code := fst r; r_ench := snd r; r_msg := [] |} = true /\ Z.eqb (cls (fst r)) 4 = t.
Proof. exact RemoteCorr.mx_lookup_error_coherent. Qed.
Print Assumptions C16_mx_lookup_error_coherent.
