(* C13 - DANE authentication accepts only a matching TLSA record and fails closed. *)
From Maddy Require Import Lib.Base Remote.Dane Remote.DaneLemmas.
Local Open Scope N_scope.

(* Authenticated exactly when a usable DANE-EE record matches the server certificate, or a
   usable DANE-TA record exists and the server certificate verifies for the MX name against the
   CA certificates of the presented chain matched by usable DANE-TA records - for record sets
   and chains of any size, any TLSA matcher and any X.509 verifier. *)
Theorem C13_auth_iff :
  forall matches chains recs hs leaf rest,
    verify_dane matches chains recs hs (leaf :: rest) = Authenticated <->
    spec_auth matches chains recs hs (leaf :: rest) = true.
Proof. exact auth_iff_spec. Qed.
Print Assumptions C13_auth_iff.

Theorem C13_refuse_iff :
  forall matches chains recs hs leaf rest,
    verify_dane matches chains recs hs (leaf :: rest) = Refuse <->
    spec_refuse matches chains recs hs (leaf :: rest) = true.
Proof. exact refuse_iff_spec. Qed.
Print Assumptions C13_refuse_iff.

(* absent or exclusively unusable records never authenticate and never refuse a TLS connection *)
Theorem C13_unusable_neutral :
  forall matches chains recs hs chain,
    existsb usable recs = false ->
    verify_dane matches chains recs hs chain <> Authenticated /\
    (hs = true -> verify_dane matches chains recs hs chain = NoOpinion).
Proof. exact unusable_neutral. Qed.
Print Assumptions C13_unusable_neutral.

Theorem C13_no_panic :
  forall matches chains recs hs leaf rest,
    verify_dane matches chains recs hs (leaf :: rest) <> Panic.
Proof. exact no_panic. Qed.
Print Assumptions C13_no_panic.

(* DANE-TA needs a usable TA record that matches a CA certificate of the presented chain *)
Theorem C13_ta_needs_matching_ca :
  forall matches chains recs hs leaf rest,
    (forall inters, chains [] inters = false) ->
    verify_dane matches chains recs hs (leaf :: rest) = Authenticated ->
    existsb (fun r => is_ee r && matches r leaf) recs = true \/
    exists c, In c (leaf :: rest) /\ is_ca c = true /\
              existsb (fun r => is_ta r && matches r c) recs = true.
Proof. exact ta_needs_matching_ca. Qed.
Print Assumptions C13_ta_needs_matching_ca.

(* the connection check: lookup failure defers; authentication only through the verification *)
Theorem C13_check_conn :
  forall matches chains l hs chain,
    check_conn matches chains true LErr hs chain = CTempFail /\
    check_conn matches chains true LNotFound hs chain = COk false /\
    check_conn matches chains false l hs chain = COk false /\
    (forall recs, check_conn matches chains true (LRecs recs) hs chain = COk true <->
                  verify_dane matches chains recs hs chain = Authenticated).
Proof. exact check_conn_spec. Qed.
Print Assumptions C13_check_conn.

(* discovery: only DNSSEC-authenticated answers are used; failing queries defer *)
Theorem C13_discover_only_authenticated :
  forall v recs, discover v = LRecs recs -> recs <> [] ->
    v_tlsa_canon v = QOk true recs \/ v_tlsa_orig v = QOk true recs.
Proof. exact discover_only_authenticated. Qed.
Print Assumptions C13_discover_only_authenticated.

Theorem C13_discover_addr_failure_defers :
  forall v, v_addr v = QFail -> discover v = LErr.
Proof. exact discover_addr_failure_defers. Qed.
Print Assumptions C13_discover_addr_failure_defers.

Theorem C13_discover_tlsa_failure_defers :
  forall v is_cname,
    v_addr v = QOk true (Some is_cname) -> v_tlsa_orig v = QFail ->
    (is_cname = false \/ v_tlsa_canon v = QNotFound \/ v_tlsa_canon v = QFail) ->
    discover v = LErr.
Proof. exact discover_tlsa_failure_defers. Qed.
Print Assumptions C13_discover_tlsa_failure_defers.

(* ... and so does a failing TLSA query at the canonical name of an MX that is an authenticated
   alias: the records that could not be fetched may be the ones that decide *)
Theorem C13_discover_canon_failure_defers :
  forall v,
    (v_addr v = QOk true (Some true) \/
     (v_addr v = QOk false (Some true) /\ exists x, v_cname v = QOk true x)) ->
    v_tlsa_canon v = QFail -> discover v = LErr.
Proof. exact discover_canon_failure_defers. Qed.
Print Assumptions C13_discover_canon_failure_defers.

Example C13_nonvacuous :
  let m := fun (r : tlsa) (c : cert) => data r =? cid c in
  let ch := fun (roots inters : list cert) => match roots with [] => false | _ => true end in
  let leaf := {| cid := 1; is_ca := false |} in let ca := {| cid := 2; is_ca := true |} in
  verify_dane m ch [{| usage := 2; sel := 0; mtype := 1; data := 2 |}] true [leaf; ca] = Authenticated /\
  verify_dane m ch [{| usage := 0; sel := 0; mtype := 1; data := 2 |};
                    {| usage := 2; sel := 0; mtype := 1; data := 9 |}] true [leaf; ca] = Refuse /\
  verify_dane m ch [{| usage := 3; sel := 0; mtype := 1; data := 1 |}] false [leaf] = Refuse.
Proof. vm_compute. auto. Qed.
