(* C17 - Address normalization is a consistent equivalence and conversions round-trip. *)
From Maddy Require Import Lib.Base Addr.Model Addr.Lemmas.
Local Open Scope N_scope.

(* Comparison is an equivalence relation and coincides with equality of lookup keys - for
   every string and whatever the Unicode / IDNA library does. *)
Theorem C17_equal_iff_key :
  forall nfc lower tou a b, equal nfc lower tou a b = true <-> key nfc lower tou a = key nfc lower tou b.
Proof. exact equal_iff_key. Qed.
Print Assumptions C17_equal_iff_key.

Theorem C17_equal_equivalence :
  forall nfc lower tou,
    (forall a, equal nfc lower tou a a = true) /\
    (forall a b, equal nfc lower tou a b = equal nfc lower tou b a) /\
    (forall a b c, equal nfc lower tou a b = true -> equal nfc lower tou b c = true ->
                   equal nfc lower tou a c = true).
Proof.
  intros. split; [|split]; [apply equal_refl | apply equal_sym | apply equal_trans].
Qed.
Print Assumptions C17_equal_equivalence.

(* ASCII exactly when all characters are below U+0080. *)
Theorem C17_is_ascii_iff_below_0x80 :
  forall s, is_ascii s = true <-> Forall (fun c => c < 128) s.
Proof. exact is_ascii_spec. Qed.
Print Assumptions C17_is_ascii_iff_below_0x80.

(* Splitting and re-joining. *)
Theorem C17_split_join :
  forall a m d, split a = Some (m, d) -> d <> [] -> a = m ++ [AT] ++ d /\ m <> [] /\ ~ In AT d.
Proof. exact split_join. Qed.
Print Assumptions C17_split_join.

Theorem C17_join_split :
  forall m d, m <> [] -> d <> [] -> ~ In AT d -> split (m ++ [AT] ++ d) = Some (m, d).
Proof. exact split_of_join. Qed.
Print Assumptions C17_join_split.

(* Quoting then unquoting a local part is the identity (every non-empty code-point string). *)
Theorem C17_unquote_quote :
  forall m, m <> [] -> unquote_mbox (quote_mbox m) = Some m.
Proof. exact unquote_quote. Qed.
Print Assumptions C17_unquote_quote.

(* The key depends on an address only through its mailbox key lower(nfc m) and its domain key:
   the case / NFC / A-label variants of one address share one key exactly when the library maps
   the variants of the parts to one mailbox key and one domain key. *)
Theorem C17_variants_same_key :
  forall nfc lower tou a a' m d m' d',
    split a = Some (m, d) -> split a' = Some (m', d') -> d <> [] -> d' <> [] ->
    lower (nfc m) = lower (nfc m') ->
    dns_for_lookup nfc lower tou d = dns_for_lookup nfc lower tou d' ->
    snd (dns_for_lookup nfc lower tou d) = true ->
    for_lookup nfc lower tou a = for_lookup nfc lower tou a' /\ equal nfc lower tou a a' = true.
Proof. exact key_congruence. Qed.
Print Assumptions C17_variants_same_key.

(* The letter case of the ASCII letters of a domain does not change its lookup key - also when
   they spell an ACE prefix (XN--...), which the IDNA library itself recognises in lower case only.
   The hypothesis says that strings.ToLower lower-cases ASCII letters. *)
Theorem C17_ascii_case_of_domain_irrelevant :
  forall nfc lower tou d d',
    (forall s, lower (ascii_lower s) = lower s) ->
    ascii_lower d = ascii_lower d' -> dns_for_lookup nfc lower tou d = dns_for_lookup nfc lower tou d'.
Proof. exact dns_for_lookup_ascii_case. Qed.
Print Assumptions C17_ascii_case_of_domain_irrelevant.

(* Partial (library behaviour assumed, not proved): idempotence of the lookup key for
   addresses whose domain the IDNA library canonicalises ([good]); the hypotheses are the
   premises of the statement and are tested against the real library by the harness. *)
Theorem C17_for_lookup_idempotent_partial :
  forall nfc lower tou (good : str -> bool),
    (forall s, lower (nfc (lower (nfc s))) = lower (nfc s)) ->
    (forall s, s <> [] -> lower (nfc s) <> []) ->
    (forall d, good d = true -> exists u, tou (ascii_lower d) = Some u /\
        let k := trim_dot (lower (nfc u)) in
        k <> [] /\ ~ In AT k /\ dns_for_lookup nfc lower tou k = (k, true)) ->
    forall a m d, split a = Some (m, d) -> d <> [] -> good d = true ->
      snd (for_lookup nfc lower tou a) = true /\
      for_lookup nfc lower tou (key nfc lower tou a) = for_lookup nfc lower tou a.
Proof. exact for_lookup_idempotent. Qed.
Print Assumptions C17_for_lookup_idempotent_partial.

Theorem C17_ascii_unicode_roundtrip_partial :
  forall nfc tou toa (good : str -> bool),
    (forall d, good d = true -> exists ad u, toa d = Some ad /\ ad <> [] /\ ~ In AT ad /\
                                             tou ad = Some u /\ nfc u = d) ->
    forall a m d, split a = Some (m, d) -> d <> [] -> is_ascii m = true -> good d = true ->
      exists a1, addr_to_ascii toa a = (a1, true) /\ addr_to_unicode nfc tou a1 = (a, true).
Proof. intros nfc tou toa good. exact (ascii_unicode_roundtrip nfc (fun s => s) tou toa good). Qed.
Print Assumptions C17_ascii_unicode_roundtrip_partial.

(* non-vacuity: a concrete address satisfies the premises of the split/quote laws *)
Example C17_nonvacuous :
  split [97; 64; 98; 46; 99] = Some ([97], [98; 46; 99]) /\
  quote_mbox [97; 32; 34] = [34; 97; 32; 92; 34; 34] /\
  unquote_mbox [34; 97; 32; 92; 34; 34] = Some [97; 32; 34].
Proof. vm_compute. auto. Qed.
