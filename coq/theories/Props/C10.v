(* C10 - The spool preserves message bytes and envelope, and never stores credentials. *)
From Maddy Require Import Lib.Base Wire.Header Wire.HeaderLemmas Queue.Model Queue.Handoff.
Local Open Scope N_scope.

(* Printing a header to the spool and reading it back gives byte-identical raw fields, for every
   list of well-formed raw fields (arbitrary folding, duplicates, 8-bit bytes, any length) and
   whatever follows the header. *)
Theorem C10_header_parse_print :
  forall fs body, forallb wf_raw fs = true ->
    read_header (write_header (map rf_bytes fs) ++ body) = HOk (map rf_bytes fs) body.
Proof. exact header_parse_print. Qed.
Print Assumptions C10_header_parse_print.

(* What is loaded from the spool is what was stored: header bytes, body bytes, and the metadata
   with the connection state stripped - assuming the JSON codec round-trips the metadata. *)
Theorem C10_handoff_identity_partial :
  forall (encode : qstate -> bytes) (decode : bytes -> option qstate),
    (forall s, decode (encode s) = Some s) ->
    forall fs body s, forallb wf_raw fs = true ->
      load decode (store encode (map rf_bytes fs) body s) = Some (map rf_bytes fs, body, strip s).
Proof.
  intros encode decode Hrt fs body s Hwf. unfold load, store. simpl.
  rewrite Hrt. pose proof (header_parse_print fs [] Hwf) as H. rewrite app_nil_r in H. rewrite H. reflexivity.
Qed.
Print Assumptions C10_handoff_identity_partial.

(* ... on every later attempt and after a restart too: rewriting the metadata touches neither
   header nor body. *)
Theorem C10_retry_keeps_content_partial :
  forall (encode : qstate -> bytes) (decode : bytes -> option qstate),
    (forall s, decode (encode s) = Some s) ->
    forall fs body s s', forallb wf_raw fs = true ->
      load decode (update_meta encode (store encode (map rf_bytes fs) body s) s')
      = Some (map rf_bytes fs, body, strip s').
Proof.
  intros encode decode Hrt fs body s s' Hwf. unfold load, update_meta, store. simpl.
  rewrite Hrt. pose proof (header_parse_print fs [] Hwf) as H. rewrite app_nil_r in H. rewrite H. reflexivity.
Qed.
Print Assumptions C10_retry_keeps_content_partial.

(* The envelope survives stripping; only the connection state is dropped. *)
Theorem C10_strip_keeps_envelope :
  forall e, e_from (strip_conn e) = e_from e /\ e_orig_from (strip_conn e) = e_orig_from e /\
            e_utf8 (strip_conn e) = e_utf8 e /\ e_requiretls (strip_conn e) = e_requiretls e /\
            e_override (strip_conn e) = e_override e /\ e_orig_rcpts (strip_conn e) = e_orig_rcpts e.
Proof. intros e. repeat split. Qed.
Print Assumptions C10_strip_keeps_envelope.

(* Nothing of the connection state (user name, password) reaches the disk: the stored files are
   the same whatever the session authenticated with. *)
Definition with_conn (s : qstate) (c : option conn) : qstate :=
  {| s_env := {| e_id := e_id (s_env s); e_from := e_from (s_env s); e_orig_from := e_orig_from (s_env s);
                 e_utf8 := e_utf8 (s_env s); e_requiretls := e_requiretls (s_env s); e_override := e_override (s_env s);
                 e_quarantine := e_quarantine (s_env s); e_orig_rcpts := e_orig_rcpts (s_env s); e_conn := c |};
     s_to := s_to s; s_tries := s_tries s |}.
Theorem C10_no_credentials :
  forall (encode : qstate -> bytes) hdr body s c1 c2,
    store encode hdr body (with_conn s c1) = store encode hdr body (with_conn s c2).
Proof. intros. reflexivity. Qed.
Print Assumptions C10_no_credentials.

Example C10_nonvacuous :
  let f := {| rf_first := [88; 58; 32; 97]; rf_conts := [[32; 98; 13]; [9]] |} in
  wf_raw f = true /\
  read_header (write_header [rf_bytes f] ++ [104; 105]) = HOk [rf_bytes f] [104; 105].
Proof. vm_compute. auto. Qed.
