(* C18 - Failure reports are well-formed, name the right recipients, and cannot loop. *)
From Maddy Require Import Lib.Base Queue.Model Queue.Dsn Queue.DsnLemmas.
Local Open Scope Z_scope.

(* No report for the null sender or without a bounce pipeline ... *)
Theorem C18_no_report_for_null_sender :
  forall sel_addr sel_dom c m failed, d_orig_from m = [] -> emit_dsn sel_addr sel_dom c m failed = DSuppressed.
Proof. exact suppressed_null_sender. Qed.
Print Assumptions C18_no_report_for_null_sender.

Theorem C18_no_report_without_bounce_pipeline :
  forall sel_addr sel_dom c m failed, dc_bounce c = false -> emit_dsn sel_addr sel_dom c m failed = DSuppressed.
Proof. exact suppressed_no_bounce. Qed.
Print Assumptions C18_no_report_without_bounce_pipeline.

(* ... and a report is itself sent without an original sender: reports never trigger reports. *)
Theorem C18_no_loop :
  forall sel_addr sel_dom c m id failed, emit_dsn sel_addr sel_dom c (report_meta m id) failed = DSuppressed.
Proof. exact no_loop. Qed.
Print Assumptions C18_no_loop.

(* Null return path, addressed to the sender of the failed message, same SMTPUTF8/REQUIRETLS. *)
Theorem C18_envelope :
  forall sel_addr sel_dom c m failed r,
    emit_dsn sel_addr sel_dom c m failed = DReport r ->
    rp_mail_from r = [] /\ rp_rcpt_to r = d_from m /\ rp_hdr_to r = d_orig_from m /\
    rp_utf8 r = d_utf8 m /\ rp_requiretls r = d_requiretls m /\
    dc_bounce c = true /\ d_orig_from m <> [].
Proof. exact report_envelope. Qed.
Print Assumptions C18_envelope.

(* Exactly the failed recipients, in order, one group each: the address the sender originally
   used (IDNA form of the message's address type), action failed, the stored status, and a
   diagnostic text without CR/LF. *)
Theorem C18_lists_exactly_failed :
  forall sel_addr sel_dom c m failed r,
    emit_dsn sel_addr sel_dom c m failed = DReport r ->
    Forall2 (group_for sel_addr m) failed (rp_rcpts r).
Proof. exact report_lists_exactly_failed. Qed.
Print Assumptions C18_lists_exactly_failed.

Theorem C18_original_address_used :
  forall m f o, mget (d_orig_rcpts m) f = Some o -> o <> [] -> final_rcpt m f = o.
Proof. exact final_rcpt_original. Qed.
Print Assumptions C18_original_address_used.

(* A due report is generated whenever every failed recipient has a status class and a
   representable address (the status class is guaranteed by C16_queue_error_has_status). *)
Theorem C18_report_generated :
  forall sel_addr sel_dom c m failed,
    dc_bounce c = true -> d_orig_from m <> [] ->
    mta_fields sel_addr sel_dom c m <> None ->
    (forall f, In f failed -> exists e x, mget (d_rcpt_errs m) f = Some e /\ (r_e0 e =? 0) = false /\
                                          final_rcpt m f <> [] /\ sel_addr (d_utf8 m) (final_rcpt m f) = Some x) ->
    exists r, emit_dsn sel_addr sel_dom c m failed = DReport r.
Proof. exact report_generated. Qed.
Print Assumptions C18_report_generated.

Theorem C18_diagnostic_single_line :
  forall s, forallb (fun c => negb (N.eqb c 10 || N.eqb c 13)) (no_crlf s) = true.
Proof. exact no_crlf_clean. Qed.
Print Assumptions C18_diagnostic_single_line.

Example C18_nonvacuous :
  let sel := fun (_ : bool) (s : str) => Some s in
  let m := {| d_id := [49%N]; d_from := [115%N]; d_orig_from := [115%N]; d_utf8 := true; d_requiretls := false;
              d_orig_rcpts := [([98%N], [111%N])];
              d_rcpt_errs := [([97%N], {| r_code := 550; r_e0 := 5; r_e1 := 1; r_e2 := 1; r_msg := [120%N; 10%N; 121%N] |});
                              ([98%N], {| r_code := 451; r_e0 := 4; r_e1 := 0; r_e2 := 0; r_msg := [] |})];
              d_conn_host := None; d_dont_trace := false |} in
  match emit_dsn sel sel {| dc_bounce := true; dc_hostname := [104%N]; dc_autogen := [100%N] |} m [[97%N]; [98%N]] with
  | DReport r => length (rp_rcpts r) = 2%nat /\ rp_rcpt_to r = [115%N]
  | _ => False
  end.
Proof. vm_compute. auto. Qed.
