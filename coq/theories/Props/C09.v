(* C09: the statements.  This file contains nothing but the property theorems. *)
From Maddy Require Import Lib.Base Remote.Status Remote.StatusLemmas.
Local Open Scope N_scope.

(* target.remote over a connection of any previous history (pooled, with whatever it recorded
   before), any capability set, any conversion function and any verdicts of the next hop: the
   statuses of every transaction name exactly the recipients accepted in that transaction, under
   the addresses they were given, one each and in order, and nothing else. *)
Theorem C09_exact_keys_over_histories :
  forall to_ascii c ts,
    Forall2 (fun t res => map fst (snd res) = accepted (t_rcpts t) (fst res)) ts (run_history to_ascii c ts).
Proof. intros ta c ts. apply run_history_keys. Qed.
Print Assumptions C09_exact_keys_over_histories.

(* every status of a transaction carries the result of that transaction's DATA *)
Theorem C09_values :
  forall to_ascii c t c' oks sts, run_txn to_ascii c t = (c', oks, sts) -> forall p, In p sts -> snd p = t_data_ok t.
Proof. intros ta c t c' oks sts H. exact (proj2 (proj2 (run_txn_keys ta c t c' oks sts H))). Qed.
Print Assumptions C09_values.

(* an LMTP next hop: one status per accepted recipient, in RCPT order, also when the transfer
   breaks after some of the replies *)
Theorem C09_lmtp_exact_keys :
  forall rcpts replies ok,
    (length replies <= length rcpts)%nat -> (ok = true -> length replies = length rcpts) ->
    map fst (lmtp_statuses rcpts replies ok) = rcpts.
Proof. exact lmtp_keys. Qed.
Print Assumptions C09_lmtp_exact_keys.

(* the pipeline reports the result of a rewritten recipient under the address the client
   supplied, as long as no two client addresses were rewritten to the same effective one *)
Theorem C09_pipeline_original_partial :
  forall m eff o v, In (eff, o) m -> (forall o', In (eff, o') m -> o' = o) -> translate m [(eff, v)] = [(o, v)].
Proof. exact translate_original. Qed.
Print Assumptions C09_pipeline_original_partial.

(* ... and the full statement is false of the code: two client addresses rewritten to one
   effective address - both results are reported under the second, none under the first *)
Theorem C09_pipeline_original_refuted :
  exists m eff o1 o2, o1 <> o2 /\ In (eff, o1) m /\ In (eff, o2) m /\
    translate m [(eff, true); (eff, false)] = [(o2, true); (o2, false)].
Proof. exists [([1], [2]); ([1], [3])], [1], [2], [3]. vm_compute. repeat split; auto; discriminate. Qed.
Print Assumptions C09_pipeline_original_refuted.

(* The pipeline end to end (AddRcpt recording the rewrites of its level, BodyNonAtomic of each
   level translating the results of the level below back): for pipelines nested to any depth, any
   1-to-N rewrite table at each level, any client recipients and any results of the next hop, if no
   level hands an address on twice ([levels_nodup]), the results carry exactly the addresses the
   client supplied, one per address handed to the next hop for it, in order.  Partial only in that
   the hypothesis excludes the many-to-one case refuted above. *)
Theorem C09_pipeline_end_to_end_partial :
  forall rws rcpts fails,
    levels_nodup rws rcpts -> map fst (pipe_e2e rws rcpts fails) = pipe_want rws rcpts.
Proof. exact pipeline_results_under_client_addresses. Qed.
Print Assumptions C09_pipeline_end_to_end_partial.

(* ... and in full: every result is reported under the address the client supplied and carries
   the result the next hop gave for the address handed on for it, in the order handed on *)
Theorem C09_pipeline_end_to_end_full_partial :
  forall rws rcpts fails,
    levels_nodup rws rcpts ->
    pipe_e2e rws rcpts fails =
    combine (pipe_want rws rcpts) (map (fun e => negb (mem_b str_eqb e fails)) (pipe_handed rws rcpts)).
Proof. exact pipeline_results_full. Qed.
Print Assumptions C09_pipeline_end_to_end_full_partial.

(* non-vacuity: a forwarding chain whose middle address the client also names (alice -> bob,
   bob -> carol; RCPT alice, RCPT bob): nothing is handed on twice, bob's result goes to alice and
   carol's to bob; and the same with the second rewrite done by a nested pipeline *)
Example C09_pipeline_chain :
  let rw := [([1], [[2]]); ([2], [[3]])] in
  pipe_e2e [rw] [[1]; [2]] [[3]] = [([1], true); ([2], false)].
Proof. vm_compute. reflexivity. Qed.
Example C09_pipeline_chain_hyp : levels_nodup [[([1], [[2]]); ([2], [[3]])]] [[1]; [2]].
Proof. cbn. split; [|exact I]. repeat constructor; cbn; intuition discriminate. Qed.
Example C09_pipeline_nested :
  pipe_e2e [[([9], [[2]; [4]])]; [([2], [[3]])]] [[9]; [5]] [[3]] = [([9], false); ([9], true); ([5], true)].
Proof. vm_compute. reflexivity. Qed.

Example C09_example :
  let ta := fun s : str => if is_ascii s then Some s else Some [120] in
  run_history ta {| c_utf8 := false; c_rcpts := [[9]] |}
     [{| t_rcpts := [[200]; [97]; [98]]; t_refused := [[98]]; t_data_ok := true |};
      {| t_rcpts := [[99]]; t_refused := []; t_data_ok := false |}]
  = [([true; true; false], [([200], true); ([97], true)]); ([true], [([99], false)])].
Proof. vm_compute. reflexivity. Qed.
