(* C05: the statements.  This file contains nothing but the property theorems. *)
From Maddy Require Import Lib.Base Remote.Policy Remote.PolicyLemmas.
Local Open Scope N_scope.

(* For every target configuration, every history of messages to one domain sharing the
   connection pool, and every assignment of facts to the MX candidates of each message: a message
   whose content is sent is not quarantined; unless the security override applies to it, the
   connection used - freshly opened or taken from the pool - satisfies every policy of the target
   ([pol_holds]: local minimum MX and TLS levels with levels justified by the facts, MTA-STS
   enforce-mode match and verified TLS, DANE match and no failed lookup); and a REQUIRETLS
   message only goes over authenticated TLS to an authenticated MX. *)
Theorem C05_data_implies_policy :
  forall t ms,
    Forall2 (fun m r => match r with
                        | Sent c reused => m_quarantine m = false /\ (overridden t m = false -> pol_holds (t_pol t) c) /\
                                           (m_reqtls m = true -> 2 <= c_tls c /\ 1 <= c_mx c)
                        | Refused => True end) ms (deliver_all t None ms).
Proof. intros t ms. apply deliver_all_sound. exact I. Qed.
Print Assumptions C05_data_implies_policy.

(* the connection pool never holds a connection that was not vetted against the target's policies *)
Theorem C05_pool_invariant :
  forall t pool m, PoolInv t pool -> PoolInv t (snd (deliver t pool m)).
Proof. exact deliver_pool_inv. Qed.
Print Assumptions C05_pool_invariant.

(* a candidate accepted by attemptMX satisfies the policies it was checked against *)
Theorem C05_attempt_mx_sound :
  forall pol ad f mx tls tr u,
    attempt_mx pol ad f = Some (mx, tls, tr) ->
    pol_holds pol {| c_mx := mx; c_tls := tls; c_facts := f; c_tlsres := tr; c_ad := ad; c_vetted := pol; c_unvetted := u |}.
Proof. exact attempt_mx_sound. Qed.
Print Assumptions C05_attempt_mx_sound.

(* TLSA discovery failure: the candidate is not used (the error is temporary: delivery is deferred) *)
Theorem C05_tlsa_failure_defers :
  forall pol ad f, p_dane pol = true -> f_dane f = DLookupFail -> attempt_mx pol ad f = None.
Proof. exact tlsa_failure_defers. Qed.
Print Assumptions C05_tlsa_failure_defers.

Theorem C05_quarantine_never_relayed :
  forall t pool m, m_quarantine m = true -> fst (deliver t pool m) = Refused.
Proof. intros t pool m H. unfold deliver. rewrite H. reflexivity. Qed.
Print Assumptions C05_quarantine_never_relayed.

(* non-vacuity: an override message opens a plaintext connection; the next ordinary message
   does not reuse it and is refused by local_policy; a secure MX is used and pooled *)
Example C05_example :
  let plain := {| f_dial := true; f_starttls := false; f_tls_breaks := false; f_cert_ok := false; f_sts := StsNone; f_dane := DNone; f_reqtls_ext := false |} in
  let good := {| f_dial := true; f_starttls := true; f_tls_breaks := false; f_cert_ok := true; f_sts := StsNone; f_dane := DNone; f_reqtls_ext := true |} in
  let t := {| t_pol := {| p_dnssec := false; p_mtasts := false; p_dane := false; p_local := Some (0, 1) |}; t_allow_override := true; t_relaxed := true |} in
  let msg o c := {| m_reqtls := false; m_override := o; m_quarantine := false; m_ad := false; m_cands := c; m_data_ok := true |} in
  match deliver_all t None [msg true [plain]; msg false [plain]; msg false [plain; good]; msg false [plain]] with
  | [Sent c1 false; Refused; Sent c3 false; Sent c4 true] => c_tls c1 = 0 /\ c_tls c3 = 2 /\ c_tls c4 = 2
  | _ => False
  end.
Proof. vm_compute. repeat split. Qed.
