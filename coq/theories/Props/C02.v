(* C02 - Queue spool survives a crash at any instant without losing accepted mail. *)
From Maddy Require Import Lib.Base Queue.Spool Queue.SpoolLemmas.
Local Open Scope N_scope.

(* Crash states are taken over the whole spool and over ANY interleaving of the operations of
   any number of messages (ops is arbitrary; only its sub-sequence for message i is constrained),
   at every instant: before each operation, after the last, and at every byte of every write. *)

(* Seen from one message, every crash state of the spool is a crash state of that message's own
   operations: other messages - concurrent accepts, retries, removals - are irrelevant. *)
Theorem C02_messages_independent :
  forall i ops s s', In s' (crash_states s ops) ->
    In (view_of s' i) (lcrash (view_of s i) (local_ops i ops)).
Proof. exact crash_view. Qed.
Print Assumptions C02_messages_independent.

Theorem C02_other_operations_invisible :
  forall decode s i o, localize i o = None -> scan_one decode (apply_op s o) i = scan_one decode s i.
Proof. exact other_messages_irrelevant. Qed.
Print Assumptions C02_other_operations_invisible.

(* Recovery only ever loads a complete metadata version the queue wrote for that message (torn
   metadata lives in .meta.new only): it never delivers to anything but the pending recipients of
   a stored message, at any crash point of the message's life. *)
Theorem C02_only_pending :
  forall decode s0 ops i hc bc m0 ms (rm : bool) s' to,
    view_of s0 i = empty_view ->
    local_ops i ops = lstore hc bc m0 ++ lupdates ms ++ (if rm then lremove else []) ->
    In s' (crash_states s0 ops) ->
    scan_one decode s' i = VLoad to ->
    exists v, In v (m0 :: ms) /\ decode v = Some to.
Proof. exact only_complete_versions. Qed.
Print Assumptions C02_only_pending.

(* From the moment storeNewMessage has returned (acceptance) until the removal begins, a stop at
   any instant - also in the middle of any metadata rewrite - leaves the message loadable with
   byte-identical header and body and one of its complete metadata versions. *)
Theorem C02_accepted_survives :
  forall decode s0 ops1 ops2 i hc bc m0 ms s',
    view_of s0 i = empty_view ->
    local_ops i ops1 = lstore hc bc m0 -> local_ops i ops2 = lupdates ms ->
    (forall v, In v (m0 :: ms) -> decode v <> None) ->
    In s' (crash_states (apply_ops s0 ops1) ops2) ->
    exists v to, In v (m0 :: ms) /\ decode v = Some to /\ scan_one decode s' i = VLoad to /\
                 (exists f, fget s' (i, XHeader) = Some f /\ f_data f = concat hc) /\
                 (exists f, fget s' (i, XBody) = Some f /\ f_data f = concat bc).
Proof. exact accepted_survives. Qed.
Print Assumptions C02_accepted_survives.

(* The metadata on disk when the next attempt is scheduled is the one just computed: after the
   rewrite returns, .meta holds exactly the new version. *)
Theorem C02_next_attempt_sees_new_metadata :
  forall v m, exists f, vm (lrun v (lupdate m)) = Some f /\ f_data f = m.
Proof. intros v m. destruct (update_final v m) as (_ & _ & H). exact H. Qed.
Print Assumptions C02_next_attempt_sees_new_metadata.

(* Once a removal (terminal outcome reached, or Abort) has begun the message is never loaded
   again, and when it has completed nothing loadable is left: an aborted transaction is never
   delivered after a restart. *)
Theorem C02_removed_never_loaded :
  forall decode s i s', In s' (crash_states s (remove_ops i)) -> s' <> s ->
    forall to, scan_one decode s' i <> VLoad to.
Proof. exact removed_never_loaded. Qed.
Print Assumptions C02_removed_never_loaded.

Theorem C02_removal_complete :
  forall s i, view_of (apply_ops s (remove_ops i)) i =
              {| vh := None; vb := None; vm := None; vn := vn (view_of s i) |}.
Proof. exact removal_complete. Qed.
Print Assumptions C02_removal_complete.

(* non-vacuity: a concrete interleaving of two messages and a crash in the middle of a rewrite *)
Example C02_nonvacuous :
  let dec := fun b : bytes => match b with [x] => Some [x] | _ => None end in
  let ops := store_ops 1 [[104]] [[98]] [7] ++ store_ops 2 [[104]] [[98]] [9] ++ update_meta_ops 1 [8] in
  let s := apply_ops [] (store_ops 1 [[104]] [[98]] [7] ++ store_ops 2 [[104]] [[98]] [9]
                         ++ [OCreate (1, XMetaNew); OWrite (1, XMetaNew) []]) in
  In s (crash_states [] ops) /\ scan_one dec s 1 = VLoad [7] /\ scan_one dec s 2 = VLoad [9].
Proof. vm_compute. repeat split; auto 40. Qed.
