(* C11 - Rate/concurrency limits are enforced and every permit is returned. *)
From Maddy Require Limits.Corr.
From Maddy Require Import Lib.Base Limits.Model Limits.Lemmas.
From Maddy Require Limits.Reap Limits.ReapLemmas Limits.ReapMon.
Local Open Scope N_scope.

(* [reach cfg max g m d]: g is reachable from the initial group by ANY interleaving of takes,
   releases (only by deliveries that hold the permit) and rate refills of ANY number of deliveries
   over ANY number of keys; m / d are the deliveries currently holding message / destination permits. *)

(* At no time do more deliveries hold a permit than a concurrency limit in force in that scope:
   all, per source IP, per sender domain, per destination domain. *)
Theorem C11_bound :
  forall cfg max g m d, cfg_ok cfg -> reach cfg max g m d ->
  (forall cap used, In (LSem cap used) (g_all g) -> cap <> 0 -> N.of_nat (length m) <= cap) /\
  (forall bs k v cap used, g_ip g = Some bs -> alookup str_eqb k (bs_m bs) = Some v ->
                           In (LSem cap used) v -> cap <> 0 -> cnt_by fst m k <= cap) /\
  (forall bs k v cap used, g_src g = Some bs -> alookup str_eqb k (bs_m bs) = Some v ->
                           In (LSem cap used) v -> cap <> 0 -> cnt_by snd m k <= cap) /\
  (forall bs k v cap used, g_dst g = Some bs -> alookup str_eqb k (bs_m bs) = Some v ->
                           In (LSem cap used) v -> cap <> 0 -> cnt_by (fun x => x) d k <= cap).
Proof. exact reach_bound. Qed.
Print Assumptions C11_bound.

(* Limit operations never crash, however many keys have been seen: acquiring never panics
   (a full bucket table refuses), and returning what is held never panics. *)
Theorem C11_no_crash :
  forall cfg max g m d, cfg_ok cfg -> reach cfg max g m d ->
  (forall ip src, fst (take_msg g ip src) <> RPanic) /\
  (forall x, fst (take_dest g x) <> RPanic) /\
  (forall ip src m', remove_first kk_eqb (ip, src) m = Some m' -> fst (release_msg g ip src) = ROk) /\
  (forall x d', remove_first str_eqb x d = Some d' -> fst (release_dest g x) = ROk).
Proof. exact reach_no_panic. Qed.
Print Assumptions C11_no_crash.

(* The exact accounting behind both: in every reachable state each semaphore of a scope is held
   by exactly the deliveries holding a permit there - a timed-out or refused take holds nothing. *)
Theorem C11_balanced :
  forall cfg max g m d, cfg_ok cfg -> reach cfg max g m d -> ginv g m d.
Proof. exact reach_inv. Qed.
Print Assumptions C11_balanced.

(* After quiescence the full concurrency can be acquired again. *)
Theorem C11_requiescent :
  forall cfg max g, cfg_ok cfg -> reach cfg max g [] [] ->
  (forall cap used, In (LSem cap used) (g_all g) -> cap <> 0 -> used = 0) /\
  (forall bs k v cap used, (g_ip g = Some bs \/ g_src g = Some bs \/ g_dst g = Some bs) ->
                           alookup str_eqb k (bs_m bs) = Some v -> In (LSem cap used) v -> cap <> 0 -> used = 0).
Proof. exact quiescent_free. Qed.
Print Assumptions C11_requiescent.

(* the four scopes are wired to their own configuration lines *)
Theorem C11_wiring :
  forall cfg max,
    g_all (init cfg max) = lims_of cfg SAll /\
    g_ip (init cfg max) = mk_bs (lims_of cfg SIp) max /\
    g_src (init cfg max) = mk_bs (lims_of cfg SSource) max /\
    g_dst (init cfg max) = mk_bs (lims_of cfg SDest) max.
Proof. intros. repeat split. Qed.
Print Assumptions C11_wiring.

Example C11_nonvacuous :
  let cfg := [{| cl_scope := SAll; cl_lim := LSem 2 0 |}; {| cl_scope := SIp; cl_lim := LSem 1 0 |};
              {| cl_scope := SIp; cl_lim := LRate 3 3 |}] in
  cfg_ok cfg /\
  fst (run (init cfg 10) [TakeMsg [1] [2]; TakeMsg [1] [3]; TakeMsg [4] [2]; TakeMsg [5] [2]; ReleaseMsg [1] [2]; TakeMsg [1] [3]])
  = [ROk; RErr; ROk; RErr; ROk; ROk].
Proof.
  split; [|vm_compute; reflexivity].
  repeat constructor; simpl; try (right; split; [reflexivity|lia]); lia.
Qed.

(* The correspondence with the implementation compares the outcomes on the well-formed prefix of an
   observed history (up to the first release of a permit that is not held, after which nothing is
   specified): on a history in which every release is by a holder that is the whole history. *)
Theorem C11_correspondence_covers_well_formed_histories :
  forall ops res,
    length ops = length res -> Corr.well_formed ops res [] [] = true ->
    Corr.wf_prefix ops res [] [] = length ops.
Proof. intros ops res. exact (Corr.wf_prefix_all ops res [] []). Qed.
Print Assumptions C11_correspondence_covers_well_formed_histories.

(* The reaper of a bucket set (Limits/Reap.v: when the table is over-full a take first drops the buckets
   idle for ReapInterval that have no permit out): for EVERY history of takes, releases by holders and
   idle periods, over any number of keys and any table size, in the state reached the permits out for a
   key are exactly the users of its bucket and at most the limit - no bucket with permits out is ever
   dropped and no dropped bucket is ever handed out - and no operation crashed. *)
Theorem C11_reaper_sound :
  forall cap maxb ops,
    ReapLemmas.wf_hist cap maxb [] [] ops ->
    let s := ReapLemmas.final cap maxb [] [] ops in
    (forall k, Reap.cnt (snd s) k <= cap) /\
    (forall k, ReapLemmas.users_of (fst s) k = Reap.cnt (snd s) k) /\
    ~ In Reap.RPanic (Reap.rrun cap maxb [] ops).
Proof.
  intros cap maxb ops W s. subst s.
  destruct (ReapLemmas.reach_inv cap maxb ops [] [] (ReapLemmas.inv0 cap) W) as [[_ I] NP].
  split; [|split; [|exact NP]]; intro k; destruct (I k) as [A B]; [rewrite <- A; exact B|exact A].
Qed.
Print Assumptions C11_reaper_sound.

(* The monitor the implementation's reaper histories are held to (clauses 30, 31 of Limits/Reap.v: never
   more holders of a key than its limit, no crash) accepts every history of the model: a reported
   violation is never an artefact of the model disagreeing with its own monitor. *)
Theorem C11_reaper_model_histories_pass_the_monitor :
  forall cap maxb ops,
    ReapLemmas.wf_hist cap maxb [] [] ops ->
    Reap.mon cap [] ops (Reap.rrun cap maxb [] ops) = [].
Proof. intros cap maxb ops W. exact (ReapMon.model_passes_monitor cap maxb ops [] [] (ReapLemmas.inv0 cap) W). Qed.
Print Assumptions C11_reaper_model_histories_pass_the_monitor.

(* non-vacuity: a key comes back after an idle period to an over-full table; its own idle bucket is
   reaped, the bucket of the key that still holds a permit is not, and the table is full again *)
Example C11_reaper_nonvacuous :
  let a := [97] in let b := [98] in
  let ops := [Reap.RTake a; Reap.RRelease a; Reap.RTake b; Reap.RIdle; Reap.RTake a; Reap.RTake a] in
  ReapLemmas.wf_hist 1 1 [] [] ops /\
  Reap.rrun 1 1 [] ops = [Reap.ROk; Reap.ROk; Reap.ROk; Reap.ROk; Reap.ROk; Reap.RFull].
Proof. split; [cbn; repeat split; reflexivity|vm_compute; reflexivity]. Qed.
