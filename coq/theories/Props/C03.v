(* C03: the statements.  This file contains nothing but the property theorems. *)
From Maddy Require Session.Committed Session.CommittedLmtp.
From Maddy Require Import Lib.Base Session.Model Session.Lemmas.
Local Open Scope N_scope.

(* For every configuration (SMTP or LMTP, deferred or immediate sender rejection, any routes,
   any failure plan of targets, checks and senders) and every command sequence ended by QUIT, a
   lost connection or nothing at all: the call log of all targets passes the typestate monitor -
   every AddRcpt / Body / Commit / Abort goes to a delivery that was opened and not yet closed, so
   no delivery is closed twice or used after closing - no delivery is left open at the end of the
   session, and every limit permit taken has been returned. *)
Theorem C03_finalized_exactly_once_and_permits_returned :
  forall c ks, exists n,
    mon (log (fst (run c st0 ks))) = Some ([], n) /\ s_permits (fst (run c st0 ks)) = [].
Proof.
  intros c ks. apply run_closed; [apply Inv0|]. intros _. reflexivity.
Qed.
Print Assumptions C03_finalized_exactly_once_and_permits_returned.

(* a successful commit step has committed every open delivery (on the per-recipient path: every
   delivery whose body did not fail) *)
Theorem C03_success_means_committed :
  forall c txn open ev,
    commit_all c txn open false false = (ev, true) ->
    forall o, In o open -> od_bodyfailed o = false -> In (txn, od_t o, od_i o, ECommit true) ev.
Proof. intros c txn open ev H. exact (proj2 (commit_all_ok c txn open false ev H)). Qed.
Print Assumptions C03_success_means_committed.

(* a transaction that fails before the commit step commits nothing: neither the body fan-out nor
   the abort that follows it contains a Commit *)
Theorem C03_failure_before_commit_commits_nothing :
  forall c txn open d,
    existsb is_commit (fst (body_all c txn open)) = false /\ existsb is_commit (abort_events c d) = false.
Proof. intros. split; [apply body_all_no_commit|apply abort_events_no_commit]. Qed.
Print Assumptions C03_failure_before_commit_commits_nothing.

(* LMTP: a recipient's reply is a success only if every delivery the recipient was added to got the
   body successfully and was committed - whatever the other targets of the transaction did, and
   however many targets the recipient is routed to.  ([r_ok sts r && cok] is the reply [do_data]
   computes for r from the statuses reported during the body stage and the result of Commit.) *)
Theorem C03_lmtp_success_means_every_target_committed :
  forall c txn open ev1 open' sts ev2 cok r,
    body_na c txn open = (ev1, open', sts) -> commit_all c txn open' false false = (ev2, cok) ->
    forallb (fun x : N * bool => negb (fst x =? r) || snd x) sts && cok = true ->
    forall o, In o open -> In r (od_rcpts o) -> od_bodyfailed o = false ->
      (In (txn, od_t o, od_i o, EBodyNA true) ev1 \/ In (txn, od_t o, od_i o, EBody true) ev1) /\
      In (txn, od_t o, od_i o, ECommit true) ev2.
Proof. exact lmtp_success_means_committed. Qed.
Print Assumptions C03_lmtp_success_means_every_target_committed.

(* Over whole SMTP sessions: after any sequence of MAIL, RCPT, DATA, RSET and NOOP commands
   ([Committed.quiet]: no second EHLO inside the session - known finding 107 lives in the SMTP
   library - and the session has not ended), a DATA command answered with success has committed,
   in the events of this very step, a delivery on every target of every recipient the driver lists
   for the transaction ... *)
Theorem C03_session_success_commits_every_recipient :
  forall c ks rd s',
    lmtp c = false -> forallb Committed.quiet ks = true ->
    step c (Committed.after c ks) (CData rd) = (s', ROk) ->
    exists ev, log s' = log (Committed.after c ks) ++ ev /\
      forall r, In r (d_rcpts (Committed.after c ks)) -> forall t, In t (route_of c r) ->
        exists txn i, In (txn, t, i, ECommit true) ev.
Proof. exact Committed.session_success_commits_every_recipient. Qed.
Print Assumptions C03_session_success_commits_every_recipient.

(* ... where the driver lists a recipient exactly when its RCPT was answered with success *)
Theorem C03_accepted_recipient_is_listed :
  forall c s r s', do_rcpt c s r = (s', ROk) -> d_rcpts s' = d_rcpts s ++ [r].
Proof. exact Committed.rcpt_ok_listed. Qed.
Print Assumptions C03_accepted_recipient_is_listed.

(* Over whole LMTP sessions (no second LHLO inside the session; every recipient block names a
   target once): a recipient whose reply to DATA is a success has been committed, in the events of
   this very step, on every one of its targets - whatever happened to the other recipients and
   targets of the transaction, and however often the address was given. *)
Theorem C03_lmtp_session_success_commits_own_targets :
  forall c, (forall r, NoDup (route_of c r)) ->
  forall ks rd s' per,
    lmtp c = true -> forallb Committed.quiet ks = true ->
    step c (Committed.after c ks) (CData rd) = (s', RData per) ->
    exists ev, log s' = log (Committed.after c ks) ++ ev /\
      forall r, In (r, true) per -> forall t, In t (route_of c r) -> exists txn i, In (txn, t, i, ECommit true) ev.
Proof. exact CommittedLmtp.lmtp_session_success_commits_own_targets. Qed.
Print Assumptions C03_lmtp_session_success_commits_own_targets.

(* non-vacuity: a session with a failing second target *)
Example C03_example :
  let cf := {| lmtp := false; deferred := true; routes := [(1, [0; 1])];
               plans := [(1, {| p_start := false; p_rcpt := []; p_body := true; p_commit := false; p_abort := false; p_partial := false |})];
               chk_start := []; chk_rcpt := []; chk_body := false; bad_senders := [] |} in
  let '(s, rs) := run cf st0 [CMail 1; CRcpt 1; CData true; CMail 1; CRcpt 1; CRset; CQuit] in
  rs = [ROk; ROk; RFail; ROk; ROk; ROk; ROk] /\
  map snd (log s) = [EStart true; EAdd 1 true; EStart true; EAdd 1 true; EBody true; EBody false; EAbort true; EAbort true;
                     EStart true; EAdd 1 true; EStart true; EAdd 1 true; EAbort true; EAbort true].
Proof. vm_compute. split; reflexivity. Qed.
