(* C01 - Queued mail is never silently lost: one terminal outcome per recipient. *)
From Maddy Require Import Lib.Base Queue.Model Queue.Lemmas.
Local Open Scope N_scope.

(* What the queue records for a recipient in an attempt is exactly the attempt's outcome for
   it - Start, recipient, body / per-recipient status or commit failure, whichever comes first -
   for every plan of a target that honours the per-recipient status contract. *)
Theorem C01_attempt_records_outcome :
  forall p to r, honest_calls p to = true -> In r to ->
    mget (fst (deliver to p)) r = outcome p r.
Proof. exact deliver_outcome. Qed.
Print Assumptions C01_attempt_records_outcome.

(* "no error recorded" coincides with the downstream having committed the message for r *)
Theorem C01_delivered_iff_committed_downstream :
  forall p to r, honest_calls p to = true -> In r to ->
    (outcome p r = None <-> truly_delivered p to r = true).
Proof. exact outcome_truly. Qed.
Print Assumptions C01_delivered_iff_committed_downstream.

(* Exactly one terminal outcome per recipient, for every configuration, every set of distinct
   recipients, every finite sequence of fault plans: once the message has left the queue, each
   recipient has been delivered exactly once and never reported, or reported (possibly
   suppressed) exactly once and never delivered; recipients that are not pending get nothing. *)
Theorem C01_exactly_one_terminal_outcome :
  forall c ps m evss r,
    NoDup (q_to m) -> honest_run c m ps = true -> run c m ps = (evss, None) ->
    (In r (q_to m) -> (delivered_n (concat evss) r + reported_n (concat evss) r = 1)%nat) /\
    (~ In r (q_to m) -> delivered_n (concat evss) r = 0%nat /\ reported_n (concat evss) r = 0%nat).
Proof.
  intros c ps m evss r Hnd Hh Hr. destruct (run_counts c ps m evss None r Hnd Hh Hr) as [A B].
  split; auto.
Qed.
Print Assumptions C01_exactly_one_terminal_outcome.

(* the recipients the queue accepts are distinct, whatever the client names *)
Theorem C01_enqueue_distinct :
  forall to, NoDup (enqueue to) /\ forall r, In r (enqueue to) <-> In r to.
Proof. exact enqueue_nodup. Qed.
Print Assumptions C01_enqueue_distinct.

(* A recipient is offered again exactly when its failure was temporary or unclassified and its
   tries are not used up - never after success or permanent failure; its counter goes up by one. *)
Theorem C01_retry_discipline :
  forall c m p m1 r,
    NoDup (q_to m) -> honest_calls p (q_to m) = true -> snd (try_delivery c m p) = Some m1 ->
    (In r (q_to m1) <->
     In r (q_to m) /\ exists f, outcome p r = Some f /\ retryable f = true /\
                                (tries_of (q_tries m) r + 1 < max_tries c)) /\
    (In r (q_to m1) -> tries_of (q_tries m1) r = tries_of (q_tries m) r + 1).
Proof. exact next_attempt_rcpts. Qed.
Print Assumptions C01_retry_discipline.

(* Never more than max_tries attempts: a fresh message has left the queue after max_tries plans. *)
Theorem C01_quiesces_within_max_tries :
  forall c ps m,
    NoDup (q_to m) -> honest_run c m ps = true -> (1 <= max_tries c) ->
    (max_tries c <= N.of_nat (length ps)) ->
    snd (run c m ps) = None.
Proof.
  intros c ps m Hnd Hh Hmax Hlen.
  apply (run_quiesces c ps m 0); auto.
  - intros; lia.
  - intros ->. simpl in Hlen. lia.
Qed.
Print Assumptions C01_quiesces_within_max_tries.

(* non-vacuity: a two-recipient message, temporary failure then success / permanent failure *)
Example C01_nonvacuous :
  let a := [97%N] in let b := [98%N] in
  let c := {| max_tries := 3; has_bounce := true |} in
  let m := {| q_to := enqueue [a; b; a]; q_tries := []; q_null_sender := false |} in
  let p1 := {| p_start := None; p_rcpt := [(a, FTemp)]; p_body := BPartial [(b, Some FUnspec)]; p_commit := None |} in
  let p2 := {| p_start := None; p_rcpt := []; p_body := BPartial [(a, None); (b, Some FPerm)]; p_commit := None |} in
  NoDup (q_to m) /\ honest_run c m [p1; p2] = true /\ snd (run c m [p1; p2]) = None /\
  delivered_n (concat (fst (run c m [p1; p2]))) a = 1%nat /\
  reported_n (concat (fst (run c m [p1; p2]))) b = 1%nat.
Proof. vm_compute. repeat split; auto. repeat constructor; simpl; intuition discriminate. Qed.

(* ---- the queue above the real remote-MX target, observed at the servers ---- *)
Require Maddy.Queue.Integ Maddy.Queue.IntegLemmas.

(* Whatever the next hops do - accept, refuse temporarily or permanently, answer 421, drop the
   connection in the middle of the recipient stage, refuse the content - on any attempt and for
   any recipient or destination domain: after at most max_tries attempts nothing is pending, and
   every recipient was either named by exactly one accepted transaction and by no report, or by
   exactly one failure report and by no accepted transaction. *)
Theorem C01_remote_exactly_one_terminal_outcome :
  forall mx (rs : Integ.script Integ.rr) (ds : Integ.script Integ.dr) rcpts,
    NoDup (map fst rcpts) -> 0 < mx ->
    let res := Integ.run mx (N.to_nat mx) 0 {| Integ.q_pending := rcpts; Integ.q_rs := rs; Integ.q_ds := ds |} in
    Integ.q_pending (fst res) = [] /\
    forall r, In r (map fst rcpts) ->
      (Integ.commits_of (snd res) r + Integ.reports_of (snd res) r = 1)%nat.
Proof. exact IntegLemmas.integ_exactly_one_outcome. Qed.
Print Assumptions C01_remote_exactly_one_terminal_outcome.

(* ... and no recipient is offered to a next hop more than max_tries times *)
Theorem C01_remote_offered_at_most_max_tries :
  forall mx (rs : Integ.script Integ.rr) (ds : Integ.script Integ.dr) rcpts r,
    NoDup (map fst rcpts) ->
    (length (Integ.replies_of
       (snd (Integ.run mx (N.to_nat mx) 0 {| Integ.q_pending := rcpts; Integ.q_rs := rs; Integ.q_ds := ds |})) r)
     <= N.to_nat mx)%nat.
Proof. exact IntegLemmas.integ_offered_at_most_max_tries. Qed.
Print Assumptions C01_remote_offered_at_most_max_tries.

(* ... nor offered again once a next hop accepted it or refused it for good *)
Require Maddy.Queue.IntegCorr Maddy.Queue.IntegOrder.
Theorem C01_remote_never_offered_after_settled :
  forall mx (rs : Integ.script Integ.rr) (ds : Integ.script Integ.dr) rcpts r,
    NoDup (map fst rcpts) ->
    IntegCorr.settled_then_offered
      (snd (Integ.run mx (N.to_nat mx) 0 {| Integ.q_pending := rcpts; Integ.q_rs := rs; Integ.q_ds := ds |})) r false = false.
Proof. exact IntegOrder.integ_never_offered_after_settled. Qed.
Print Assumptions C01_remote_never_offered_after_settled.

(* Together: the monitor that is run on what the real queue and target.remote did against scripted
   servers is silent on every history the model produces, for every script of server behaviour -
   so a monitor alarm on an implementation history is a behaviour outside the proved model. *)
Theorem C01_remote_model_histories_pass_the_monitor :
  forall mx (rs : Integ.script Integ.rr) (ds : Integ.script Integ.dr) rcpts,
    NoDup (map fst rcpts) -> 0 < mx ->
    IntegCorr.monitor
      {| IntegCorr.c_max := mx; IntegCorr.c_rcpts := rcpts; IntegCorr.c_rscript := rs; IntegCorr.c_dscript := ds;
         IntegCorr.c_events := snd (Integ.run mx (N.to_nat mx) 0 {| Integ.q_pending := rcpts; Integ.q_rs := rs; Integ.q_ds := ds |});
         IntegCorr.c_removed := true |} = [].
Proof. exact IntegOrder.integ_model_history_satisfies_monitor. Qed.
Print Assumptions C01_remote_model_histories_pass_the_monitor.

(* non-vacuity: three recipients in two domains; the first server drops the connection at the
   second recipient, then refuses the content once; the third recipient is refused for good *)
Example C01_remote_nonvacuous :
  let rcpts := [(0, 0); (1, 0); (2, 1)] in
  let rs := [(1, [Integ.RDrop]); (2, [Integ.RPerm])] in
  let ds := [(0, [Integ.DTemp])] in
  let t := snd (Integ.run 3 3 0 {| Integ.q_pending := rcpts; Integ.q_rs := rs; Integ.q_ds := ds |}) in
  NoDup (map fst rcpts) /\
  Integ.commits_of t 0 = 1%nat /\ Integ.commits_of t 1 = 1%nat /\ Integ.reports_of t 2 = 1%nat /\
  length (Integ.replies_of t 0) = 3%nat.
Proof. vm_compute. repeat split; auto. repeat constructor; simpl; intuition discriminate. Qed.
