(* C04: the statements.  This file contains nothing but the property theorems. *)
From Maddy Require Import Lib.Base Pipeline.Route Pipeline.Spec Pipeline.Lemmas Pipeline.SpecSel Pipeline.Whole Pipeline.Single.
Local Open Scope N_scope.

(* First declaration wins, for every configuration: the destination table of a parsed source
   scope maps a key to the block of the first destination directive (in the order written) one of
   whose rules normalises to that key - whatever spelling the rule was written in - and the
   destination_in tables keep their declaration order. *)
Theorem C04_first_declaration_wins_destination :
  forall flk dflk valid_rule f nodes sm rin rper rd k,
    parse_src flk dflk valid_rule (S f) nodes = Ok (Src sm rin rper rd) ->
    alookup str_eqb k rper = first_decl_r flk dflk valid_rule (parse_rcpt flk dflk valid_rule f) nodes k /\
    rin = decl_in_r (parse_rcpt flk dflk valid_rule f) nodes.
Proof. exact parse_src_first_wins. Qed.
Print Assumptions C04_first_declaration_wins_destination.

Theorem C04_first_declaration_wins_source :
  forall flk dflk valid_rule f nodes gm sin per d k,
    parse_root flk dflk valid_rule (S f) nodes = Ok (Pipe gm sin per d) ->
    alookup str_eqb k per = first_decl_s flk dflk valid_rule (parse_src flk dflk valid_rule f) nodes k.
Proof. exact parse_root_first_wins. Qed.
Print Assumptions C04_first_declaration_wins_source.

(* The documented precedence: the block selected for a recipient is the first table that has
   the lookup key, else the block declared for the full key, else the block declared for its
   domain, else the default block - exactly one of them. *)
Theorem C04_precedence :
  forall flk split_dom tbl sm rin rper rd to b,
    select_rcpt flk split_dom tbl (Src sm rin rper rd) to = SBlock b ->
    exists clean, flk to = Some clean /\
      (first_table tbl rin clean = Some b \/
       (first_table tbl rin clean = None /\
        (alookup str_eqb clean rper = Some b \/
         (alookup str_eqb clean rper = None /\ exists dom, split_dom clean = Some dom /\
            (alookup str_eqb dom rper = Some b \/ (alookup str_eqb dom rper = None /\ b = rd)))))).
Proof. exact select_rcpt_cases. Qed.
Print Assumptions C04_precedence.

(* Model = documented rules, scope by scope: for every configuration the parser accepts, the block
   a scope's tables select for a key is the block the documented precedence picks on the directives
   as written (Spec.pick_block: the first *_in directive whose table has the key, else the first
   directive declaring the full key, else the first one declaring its domain, else the default
   block - the explicit one, or the handling directives written directly in the scope), and the
   refusals coincide.  [wf_nodes]: a directive written without a block has no children; every
   generated case is checked for it (tag bit 128 of Pipeline/Corr.v). *)
Theorem C04_selection_is_documented_precedence_destination :
  forall flk dflk valid_rule split_dom tbl f nodes s to clean,
    wf_nodes nodes ->
    parse_src flk dflk valid_rule (S f) nodes = Ok s ->
    flk to = Some clean ->
    match pick_block flk dflk valid_rule split_dom tbl (is_d DDestIn) (is_d DDest) (is_d DDefaultDest) handling_src nodes clean false with
    | PFail r => select_rcpt flk split_dom tbl s to = SFail r
    | PNodes blk => exists b, parse_rcpt flk dflk valid_rule f blk = Ok b /\
                              select_rcpt flk split_dom tbl s to = SBlock b
    end.
Proof. exact select_rcpt_eq_spec. Qed.
Print Assumptions C04_selection_is_documented_precedence_destination.

Theorem C04_selection_is_documented_precedence_source :
  forall flk dflk valid_rule split_dom tbl f nodes p from clean,
    wf_nodes nodes ->
    parse_root flk dflk valid_rule (S f) nodes = Ok p ->
    (match from with [] => Some [] | _ => flk from end) = Some clean ->
    match pick_block flk dflk valid_rule split_dom tbl (is_d DSourceIn) (is_d DSource) (is_d DDefaultSource) handling_root nodes clean true with
    | PFail r => select_src flk split_dom tbl p from = SFail r
    | PNodes blk => exists s, parse_src flk dflk valid_rule f blk = Ok s /\
                              select_src flk split_dom tbl p from = SBlock s
    end.
Proof. exact select_src_eq_spec. Qed.
Print Assumptions C04_selection_is_documented_precedence_source.

(* Model = documented rules, for whole messages: for every configuration the parser accepts (any
   nesting depth of reroute, any tables, any 1-to-N rewrites at the three levels, any fuel) and every
   envelope, what Route.message computes on the parsed tables - the reply to MAIL FROM and, per RCPT
   TO, the (target, sender, recipient) events in order and the reply - is what Spec.spec_message, the
   documented precedence read directly off the directive tree, says.  The monitor's reference
   (Spec) and the model the implementation is compared with (Route) are therefore one function.
   [wf_deepb]: a directive without a block has no children at any depth - evaluated on every
   generated case (tag bit 128). *)
Theorem C04_route_eq_spec :
  forall flk dflk valid_rule split_dom tbl rw_s rw_r wfuel rf fp nodes p from tos,
    wf_deepb wfuel nodes = true ->
    parse_root flk dflk valid_rule fp nodes = Ok p ->
    message flk split_dom tbl rw_s rw_r rf p from tos =
    spec_message flk dflk valid_rule split_dom tbl rw_s rw_r rf nodes from tos.
Proof. intros. eapply message_eq_spec; [eapply wf_deepb_sound|]; eassumption. Qed.
Print Assumptions C04_route_eq_spec.

(* One recipient, one block: in a scope without rewrites of its own, the recipient is handed - under
   each address the selected block's rewrites produce, 1-to-N - to every target of that block, in
   order, with the sender the scope was started with, and no other target sees it; a rejecting block
   answers with its configured reply and no target sees the recipient. *)
Theorem C04_single_block_delivers_to_exactly_its_targets :
  forall flk split_dom tbl rw_s rw_r f sin per d rin rper rd from to rm ids l3,
    select_rcpt flk split_dom tbl (Src [] rin rper rd) to = SBlock (Rblk rm None (map TLeaf ids)) ->
    group_rcpt rw_r rm to = Some l3 ->
    add_rcpt flk split_dom tbl rw_s rw_r (S f) (Pipe [] sin per d) (Src [] rin rper rd) from to =
    (flat_map (fun to3 => map (fun id => (id, from, to3)) ids) l3, None).
Proof. exact add_rcpt_leaf_block. Qed.
Print Assumptions C04_single_block_delivers_to_exactly_its_targets.

Theorem C04_rejecting_block_reaches_no_target :
  forall flk split_dom tbl rw_s rw_r f sin per d rin rper rd from to rm c tg,
    select_rcpt flk split_dom tbl (Src [] rin rper rd) to = SBlock (Rblk rm (Some c) tg) ->
    add_rcpt flk split_dom tbl rw_s rw_r (S f) (Pipe [] sin per d) (Src [] rin rper rd) from to = ([], Some c).
Proof. exact add_rcpt_reject_block. Qed.
Print Assumptions C04_rejecting_block_reaches_no_target.

(* Matching sees addresses and rules only through their lookup keys: two spellings with the
   same key select the same block, and two rule lists with the same normal forms declare the
   same keys. *)
Theorem C04_key_only :
  forall flk dflk valid_rule split_dom tbl,
    (forall s a a', flk a = flk a' -> select_rcpt flk split_dom tbl s a = select_rcpt flk split_dom tbl s a') /\
    (forall p a a', a <> [] -> a' <> [] -> flk a = flk a' -> select_src flk split_dom tbl p a = select_src flk split_dom tbl p a') /\
    (forall args args' k, map (norm_rule flk dflk valid_rule) args = map (norm_rule flk dflk valid_rule) args' ->
                          declares flk dflk valid_rule args k = declares flk dflk valid_rule args' k).
Proof.
  intros. split; [apply select_rcpt_key_only|]. split; [apply select_src_key_only|apply declares_key_only].
Qed.
Print Assumptions C04_key_only.

(* Every recipient block of an accepted configuration - at any nesting depth, since nested
   pipelines are parsed by the same function - rejects or has at least one target. *)
Theorem C04_explicit_decision :
  forall flk dflk valid_rule fuel nodes rm rej tg,
    parse_rcpt flk dflk valid_rule fuel nodes = Ok (Rblk rm rej tg) -> rej <> None \/ tg <> [].
Proof. exact parse_rcpt_decides. Qed.
Print Assumptions C04_explicit_decision.

(* non-vacuity: two destination blocks for the same key in different spellings - the first wins *)
Example C04_example :
  let flk := fun s : str => Some (map (fun c => if (65 <=? c) && (c <=? 90) then c + 32 else c) s) in
  let nodes := [Node DDest [[69; 46; 111]] [] true [Node DReject [] [551] false []];
                Node DDest [[101; 46; 111]] [] true [Node DReject [] [552] false []];
                Node DDefaultDest [] [] true [Node DDeliver [] [7] false []]] in
  match parse_src flk flk (fun _ => true) 5 nodes with
  | Ok s => select_rcpt flk (fun _ => Some [101; 46; 111]) (fun _ _ => false) s [97; 64; 69; 46; 79]
            = SBlock (Rblk [] (Some 551570) [])
  | _ => False
  end.
Proof. vm_compute. reflexivity. Qed.
