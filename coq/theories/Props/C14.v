(* C14: the statements.  This file contains nothing but the property theorems. *)
From Maddy Require Import Lib.Base Auth.Model Auth.Lemmas.
Local Open Scope N_scope.

(* Over any history of management operations the table holds, for every key, exactly the
   credential most recently set for it (creation of an existing account changes nothing, deletion
   removes it). *)
Theorem C14_table_refines_last_write :
  forall norm (h : list mop) (k : str), tget (manage_all norm [] h) k = current norm (rev h) k.
Proof. exact table_is_current. Qed.
Print Assumptions C14_table_refines_last_write.

(* Password authentication succeeds exactly when the user name normalizes to a key whose most
   recently set credential verifies the supplied password. *)
Theorem C14_succeeds_iff_current :
  forall norm (h : list mop) (u pw : str),
    auth_direct norm (manage_all norm [] h) u pw = true <->
    exists k c, norm u = Some k /\ current norm (rev h) k = Some c /\ verify c pw = true.
Proof. exact succeeds_iff_current. Qed.
Print Assumptions C14_succeeds_iff_current.

(* verification against a stored credential is equality with the password it was set to:
   for argon2 always; for bcrypt when neither password contains a NUL byte and both are
   shorter than 72 bytes.  Beyond that bcrypt compares only the 72-byte key (partial: the
   full statement is refuted below). *)
Theorem C14_verify_is_equality_partial :
  forall c pw,
    match cr_scheme c with
    | SArgon2 => True
    | SBcrypt => (length (cr_pw c) < 72)%nat /\ (length pw < 72)%nat /\ ~ In 0 (cr_pw c) /\ ~ In 0 pw
    | SSha256 => False
    end ->
    (verify c pw = true <-> cr_pw c = pw).
Proof.
  intros [s p] pw. unfold verify; cbn [cr_scheme cr_pw]. destruct s; intro H.
  - destruct H as (H1 & H2 & H3 & H4). split; intro E.
    + apply str_eqb_eq in E. apply bkey_inj; assumption.
    + subst; apply str_eqb_refl.
  - apply str_eqb_eq.
  - contradiction.
Qed.
Print Assumptions C14_verify_is_equality_partial.

Theorem C14_verify_is_equality_refuted :
  exists c pw, compute_ok (cr_scheme c) (cr_pw c) = true /\ verify c pw = true /\ cr_pw c <> pw.
Proof.
  exists {| cr_scheme := SBcrypt; cr_pw := repeat 97 72 |}, (repeat 97 72 ++ [98]).
  split; [reflexivity|]. split; [vm_compute; reflexivity|]. vm_compute. discriminate.
Qed.
Print Assumptions C14_verify_is_equality_refuted.

(* authentication never changes the table *)
Theorem C14_authentication_reads_only :
  forall norm snorm amap t ops,
    (forall o, In o ops -> match o with OManage _ => False | _ => True end) ->
    fst (run norm snorm amap t ops) = t.
Proof. exact run_auth_only_table. Qed.
Print Assumptions C14_authentication_reads_only.

(* PLAIN (without or with the authenticated name as authorization identity) and LOGIN give
   the same decision and the same identity, whatever the normalization and mapping *)
Theorem C14_plain_login_agree :
  forall norm snorm amap t u pw,
    sasl_plain norm snorm amap t [] u pw = sasl_login norm snorm amap t u pw /\
    sasl_plain norm snorm amap t u u pw = sasl_login norm snorm amap t u pw.
Proof. intros; split; [apply plain_login_agree|apply plain_login_agree_authzid]. Qed.
Print Assumptions C14_plain_login_agree.

Theorem C14_authzid_mismatch_refused :
  forall norm snorm amap t a u pw, a <> [] -> a <> u -> sasl_plain norm snorm amap t a u pw = None.
Proof. exact authzid_mismatch_refused. Qed.
Print Assumptions C14_authzid_mismatch_refused.

(* a SASL exchange succeeds exactly when the mapped name authenticates, and reports the name
   the client supplied *)
Theorem C14_sasl_success :
  forall norm snorm amap t a u pw id,
    sasl_plain norm snorm amap t a u pw = Some id ->
    id = u /\ exists m, username_for_auth snorm amap u = Some m /\ auth_direct norm t m pw = true.
Proof.
  intros norm snorm amap t a u pw id H. apply sasl_identity in H as [H1 H2]. split; [exact H1|].
  apply sasl_auth_iff. exact H2.
Qed.
Print Assumptions C14_sasl_success.

(* on an endpoint that requires authentication every accepted MAIL is preceded by a
   successful authentication with a non-empty identity *)
Theorem C14_submission_requires_auth :
  forall cs i,
    nth_error (sess_run true {| s_user := [] |} cs) i = Some true -> nth_error cs i = Some CMail ->
    exists j id, (j < i)%nat /\ nth_error cs j = Some (CAuth (Some id)) /\ id <> [].
Proof. intros cs i. apply sess_mail_needs_auth. reflexivity. Qed.
Print Assumptions C14_submission_requires_auth.

(* non-vacuity *)
Example C14_history_example :
  let norm := fun u : str => match u with [] => None | _ => Some (map (fun c => if (65 <=? c) && (c <=? 90) then c + 32 else c) u) end in
  let h := [MCreate [65;108] [112] SBcrypt; MSet [97;108] [113]; MCreate [97;76] [114] SArgon2] in
  auth_direct norm (manage_all norm [] h) [65;76] [113] = true /\
  auth_direct norm (manage_all norm [] h) [65;76] [112] = false /\
  auth_direct norm (manage_all norm [] h) [65;76] [114] = false /\
  auth_direct norm (manage_all norm [] (h ++ [MDelete [97;108]])) [65;76] [113] = false.
Proof. vm_compute. repeat split. Qed.
Example C14_session_example :
  sess_run true {| s_user := [] |} [CMail; CAuth None; CMail; CAuth (Some [97]); CMail] = [false; false; false; true; true].
Proof. reflexivity. Qed.
